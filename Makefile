# setup: build the IR dumper (offline; needs only clang++ and libLLVM-14 from the image)
LLVM_CXXFLAGS := $(shell llvm-config-14 --cxxflags)
all: build/ofir-dump
build/ofir-dump: engine/ofir-dump.cpp
	mkdir -p build
	clang++ $(LLVM_CXXFLAGS) -O1 -fno-rtti engine/ofir-dump.cpp -o build/ofir-dump /usr/lib/llvm-14/lib/libLLVM-14.so
clean:
	rm -rf build .cache replay
