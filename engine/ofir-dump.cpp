// ofir-dump: turn one LLVM IR unit (clang -O0 -g -disable-O0-optnone) into the
// JSON "program database" the Python rules of /verif read.
//
//   ofir-dump <in.ll|in.bc> <out.json>
//
// Passes run first: mem2reg, loop-simplify, lcssa (so that locals are SSA values
// and every natural loop has a preheader / dedicated exits). Nothing else is
// optimised: the IR still mirrors the source statement by statement.
//
// Emitted per unit: struct layouts joined with debug-info member names; globals
// with initialisers; functions with params, blocks, successor edges, immediate
// (post)dominators, natural loops with ScalarEvolution backedge-taken counts,
// instructions with resolved operands, GEP paths resolved to (struct, field
// name), callee, compare predicate, source location, and the SCEV of every
// SCEVable instruction that lives inside a loop.
#include "llvm/ADT/DenseMap.h"
#include "llvm/ADT/StringExtras.h"
#include "llvm/Analysis/LoopInfo.h"
#include "llvm/Analysis/PostDominators.h"
#include "llvm/Analysis/ScalarEvolution.h"
#include "llvm/Analysis/ScalarEvolutionExpressions.h"
#include "llvm/IR/Constants.h"
#include "llvm/IR/DataLayout.h"
#include "llvm/IR/DebugInfo.h"
#include "llvm/IR/DebugInfoMetadata.h"
#include "llvm/IR/Dominators.h"
#include "llvm/IR/Function.h"
#include "llvm/IR/InstIterator.h"
#include "llvm/IR/Instructions.h"
#include "llvm/IR/IntrinsicInst.h"
#include "llvm/IR/LLVMContext.h"
#include "llvm/IR/Module.h"
#include "llvm/IR/Operator.h"
#include "llvm/IR/PassManager.h"
#include "llvm/IRReader/IRReader.h"
#include "llvm/Passes/PassBuilder.h"
#include "llvm/Support/JSON.h"
#include "llvm/Support/SourceMgr.h"
#include "llvm/Support/raw_ostream.h"
#include "llvm/Transforms/IPO/AlwaysInliner.h"
#include "llvm/Transforms/Utils/LCSSA.h"
#include "llvm/Transforms/Utils/Local.h"
#include "llvm/Transforms/Utils/LoopSimplify.h"
#include "llvm/Transforms/Utils/Mem2Reg.h"
#include <fstream>
#include <map>
#include <set>
#include <string>

using namespace llvm;

static std::string tyStr(Type *T) {
  std::string S;
  raw_string_ostream OS(S);
  T->print(OS, false, true);
  return OS.str();
}

static std::string structName(StructType *ST) {
  if (!ST->hasName())
    return "";
  StringRef N = ST->getName();
  N.consume_front("struct.");
  N.consume_front("union.");
  return N.str();
}

// ---------------------------------------------------------------- debug info
struct DIMember {
  std::string name;
  uint64_t offBits, sizeBits;
  std::string type;
};
struct DIStruct {
  std::string name;
  uint64_t sizeBits;
  std::vector<DIMember> members;
  std::string file;
  unsigned line;
};

static std::string diTypeName(const DIType *T, int depth = 0) {
  if (!T)
    return "void";
  if (depth > 8)
    return "?";
  if (auto *D = dyn_cast<DIDerivedType>(T)) {
    switch (D->getTag()) {
    case dwarf::DW_TAG_pointer_type:
      return diTypeName(D->getBaseType(), depth + 1) + "*";
    case dwarf::DW_TAG_typedef:
      return D->getName().str();
    case dwarf::DW_TAG_const_type:
      return "const " + diTypeName(D->getBaseType(), depth + 1);
    case dwarf::DW_TAG_volatile_type:
      return "volatile " + diTypeName(D->getBaseType(), depth + 1);
    default:
      return diTypeName(D->getBaseType(), depth + 1);
    }
  }
  if (auto *C = dyn_cast<DICompositeType>(T)) {
    if (C->getTag() == dwarf::DW_TAG_array_type) {
      std::string S = diTypeName(C->getBaseType(), depth + 1);
      for (auto *E : C->getElements())
        if (auto *SR = dyn_cast<DISubrange>(E)) {
          if (auto *CI = SR->getCount().dyn_cast<ConstantInt *>())
            S += "[" + std::to_string(CI->getSExtValue()) + "]";
          else
            S += "[]";
        }
      return S;
    }
    if (C->getTag() == dwarf::DW_TAG_enumeration_type)
      return "enum " + C->getName().str();
    return "struct " + C->getName().str();
  }
  if (auto *B = dyn_cast<DIBasicType>(T))
    return B->getName().str();
  if (isa<DISubroutineType>(T))
    return "fn";
  return "?";
}

static std::map<std::string, DIStruct> collectDIStructs(Module &M) {
  std::map<std::string, DIStruct> R;
  DebugInfoFinder F;
  F.processModule(M);
  // typedef name for anonymous structs
  std::map<const DICompositeType *, std::string> tdName;
  for (auto *T : F.types())
    if (auto *D = dyn_cast<DIDerivedType>(T))
      if (D->getTag() == dwarf::DW_TAG_typedef)
        if (auto *C = dyn_cast_or_null<DICompositeType>(D->getBaseType()))
          if (C->getName().empty() && !tdName.count(C))
            tdName[C] = D->getName().str();
  for (auto *T : F.types()) {
    auto *C = dyn_cast<DICompositeType>(T);
    if (!C)
      continue;
    if (C->getTag() != dwarf::DW_TAG_structure_type &&
        C->getTag() != dwarf::DW_TAG_union_type)
      continue;
    if (C->isForwardDecl())
      continue;
    std::string N = C->getName().str();
    if (N.empty()) {
      auto It = tdName.find(C);
      if (It == tdName.end())
        continue;
      N = It->second;
    }
    DIStruct S;
    S.name = N;
    S.sizeBits = C->getSizeInBits();
    S.file = C->getFilename().str();
    S.line = C->getLine();
    for (auto *E : C->getElements())
      if (auto *D = dyn_cast<DIDerivedType>(E))
        if (D->getTag() == dwarf::DW_TAG_member)
          S.members.push_back({D->getName().str(), D->getOffsetInBits(),
                               D->getSizeInBits(),
                               diTypeName(D->getBaseType())});
    R[N] = S;
  }
  return R;
}

// ---------------------------------------------------------------- dumper
struct Dumper {
  Module &M;
  const DataLayout &DL;
  json::OStream J;
  std::map<std::string, DIStruct> DIS;
  // per function numbering
  DenseMap<const Value *, unsigned> instId;
  DenseMap<const BasicBlock *, unsigned> blockId;

  Dumper(Module &M, raw_ostream &OS)
      : M(M), DL(M.getDataLayout()), J(OS, 0), DIS(collectDIStructs(M)) {}

  const DIMember *memberAt(StructType *ST, unsigned idx) {
    std::string N = structName(ST);
    // strip a numeric suffix ".123" clang adds to duplicate type names
    auto It = DIS.find(N);
    if (It == DIS.end()) {
      size_t P = N.rfind('.');
      if (P != std::string::npos &&
          N.find_first_not_of("0123456789", P + 1) == std::string::npos)
        It = DIS.find(N.substr(0, P));
    }
    if (It == DIS.end() || ST->isOpaque())
      return nullptr;
    uint64_t off = DL.getStructLayout(ST)->getElementOffsetInBits(idx);
    for (auto &Mb : It->second.members)
      if (Mb.offBits == off)
        return &Mb;
    return nullptr;
  }

  void constant(const Constant *C, int depth = 0) {
    J.object([&] {
      if (auto *CI = dyn_cast<ConstantInt>(C)) {
        J.attribute("k", "c");
        J.attribute("bits", (int64_t)CI->getBitWidth());
        if (CI->getBitWidth() <= 64) {
          J.attribute("v", (int64_t)CI->getSExtValue());
          if (CI->getBitWidth() < 64)
            J.attribute("u", (int64_t)CI->getZExtValue());
          else
            J.attribute("us", utostr(CI->getZExtValue()));
        } else
          J.attribute("vs", toString(CI->getValue(), 10, true));
      } else if (auto *CF = dyn_cast<ConstantFP>(C)) {
        J.attribute("k", "cf");
        J.attribute("ty", tyStr(C->getType()));
        if (CF->getType()->isDoubleTy())
          J.attribute("v", CF->getValueAPF().convertToDouble());
        else if (CF->getType()->isFloatTy())
          J.attribute("v", (double)CF->getValueAPF().convertToFloat());
        else
          J.attribute("v", 0.0);
      } else if (isa<ConstantPointerNull>(C)) {
        J.attribute("k", "null");
        J.attribute("ty", tyStr(C->getType()));
      } else if (isa<UndefValue>(C)) {
        J.attribute("k", "undef");
        J.attribute("ty", tyStr(C->getType()));
      } else if (auto *F = dyn_cast<Function>(C)) {
        J.attribute("k", "f");
        J.attribute("name", F->getName());
      } else if (auto *G = dyn_cast<GlobalVariable>(C)) {
        J.attribute("k", "g");
        J.attribute("name", G->getName());
      } else if (auto *CE = dyn_cast<ConstantExpr>(C)) {
        J.attribute("k", "ce");
        J.attribute("op", CE->getOpcodeName());
        J.attribute("ty", tyStr(C->getType()));
        if (auto *GO = dyn_cast<GEPOperator>(CE)) {
          APInt Off(DL.getIndexTypeSizeInBits(GO->getType()), 0);
          if (GO->accumulateConstantOffset(DL, Off))
            J.attribute("off", (int64_t)Off.getSExtValue());
          J.attribute("srcty", tyStr(GO->getSourceElementType()));
        }
        J.attributeArray("ops", [&] {
          for (auto &Op : CE->operands())
            constant(cast<Constant>(Op), depth + 1);
        });
      } else if (auto *CDS = dyn_cast<ConstantDataSequential>(C)) {
        J.attribute("k", "data");
        J.attribute("ty", tyStr(C->getType()));
        if (CDS->getElementType()->isIntegerTy()) {
          if (CDS->isString() || CDS->isCString()) {
            // also as text, for string tables
            std::string S = CDS->getAsString().str();
            bool printable = true;
            for (char ch : S)
              if ((unsigned char)ch >= 0x7f ||
                  ((unsigned char)ch < 0x20 && ch != 0 && ch != '\n' &&
                   ch != '\t'))
                printable = false;
            if (printable) {
              while (!S.empty() && S.back() == 0)
                S.pop_back();
              J.attribute("str", S);
            }
          }
          J.attributeArray("elts", [&] {
            for (unsigned i = 0, e = CDS->getNumElements(); i != e; ++i)
              J.value((int64_t)CDS->getElementAsInteger(i));
          });
        } else {
          J.attributeArray("felts", [&] {
            for (unsigned i = 0, e = CDS->getNumElements(); i != e; ++i)
              J.value(CDS->getElementAsAPFloat(i).convertToDouble());
          });
        }
      } else if (isa<ConstantAggregateZero>(C)) {
        J.attribute("k", "zero");
        J.attribute("ty", tyStr(C->getType()));
        J.attribute("bytes", (int64_t)DL.getTypeAllocSize(C->getType()));
      } else if (auto *CA = dyn_cast<ConstantAggregate>(C)) {
        J.attribute("k", "agg");
        J.attribute("ty", tyStr(C->getType()));
        J.attributeArray("elts", [&] {
          for (auto &Op : CA->operands())
            constant(cast<Constant>(Op), depth + 1);
        });
      } else {
        J.attribute("k", "other");
        J.attribute("ty", tyStr(C->getType()));
      }
    });
  }

  void operand(const Value *V) {
    if (auto *I = dyn_cast<Instruction>(V)) {
      J.object([&] {
        J.attribute("k", "i");
        J.attribute("id", (int64_t)instId.lookup(I));
      });
    } else if (auto *A = dyn_cast<Argument>(V)) {
      J.object([&] {
        J.attribute("k", "a");
        J.attribute("idx", (int64_t)A->getArgNo());
      });
    } else if (auto *BB = dyn_cast<BasicBlock>(V)) {
      J.object([&] {
        J.attribute("k", "b");
        J.attribute("id", (int64_t)blockId.lookup(BB));
      });
    } else if (auto *C = dyn_cast<Constant>(V)) {
      constant(C);
    } else if (isa<MetadataAsValue>(V)) {
      J.object([&] { J.attribute("k", "md"); });
    } else if (isa<InlineAsm>(V)) {
      J.object([&] { J.attribute("k", "asm"); });
    } else {
      J.object([&] { J.attribute("k", "other"); });
    }
  }

  void scev(const SCEV *S, ScalarEvolution &SE, int depth = 0) {
    J.object([&] {
      if (depth > 24) {
        J.attribute("k", "deep");
        return;
      }
      switch (S->getSCEVType()) {
      case scConstant:
        J.attribute("k", "const");
        J.attribute("v",
                    (int64_t)cast<SCEVConstant>(S)->getAPInt().getSExtValue());
        J.attribute("bits",
                    (int64_t)cast<SCEVConstant>(S)->getAPInt().getBitWidth());
        break;
      case scUnknown: {
        J.attribute("k", "unknown");
        J.attributeBegin("v");
        operand(cast<SCEVUnknown>(S)->getValue());
        J.attributeEnd();
        break;
      }
      case scAddRecExpr: {
        auto *AR = cast<SCEVAddRecExpr>(S);
        J.attribute("k", "addrec");
        J.attribute("loop", (int64_t)blockId.lookup(AR->getLoop()->getHeader()));
        J.attribute("nuw", AR->hasNoUnsignedWrap());
        J.attribute("nsw", AR->hasNoSignedWrap());
        J.attributeArray("ops", [&] {
          for (auto *Op : AR->operands())
            scev(Op, SE, depth + 1);
        });
        break;
      }
      case scCouldNotCompute:
        J.attribute("k", "cnc");
        break;
      default: {
        const char *K = "?";
        switch (S->getSCEVType()) {
        case scTruncate: K = "trunc"; break;
        case scZeroExtend: K = "zext"; break;
        case scSignExtend: K = "sext"; break;
        case scPtrToInt: K = "ptrtoint"; break;
        case scAddExpr: K = "add"; break;
        case scMulExpr: K = "mul"; break;
        case scUDivExpr: K = "udiv"; break;
        case scUMaxExpr: K = "umax"; break;
        case scSMaxExpr: K = "smax"; break;
        case scUMinExpr: K = "umin"; break;
        case scSMinExpr: K = "smin"; break;
        case scSequentialUMinExpr: K = "sumin"; break;
        default: break;
        }
        J.attribute("k", K);
        J.attribute("bits", (int64_t)SE.getTypeSizeInBits(S->getType()));
        J.attributeArray("ops", [&] {
          if (auto *C = dyn_cast<SCEVCastExpr>(S))
            scev(C->getOperand(), SE, depth + 1);
          else if (auto *N = dyn_cast<SCEVNAryExpr>(S))
            for (auto *Op : N->operands())
              scev(Op, SE, depth + 1);
          else if (auto *U = dyn_cast<SCEVUDivExpr>(S)) {
            scev(U->getLHS(), SE, depth + 1);
            scev(U->getRHS(), SE, depth + 1);
          }
        });
      }
      }
    });
  }

  void gepPath(const GEPOperator *G) {
    J.attribute("srcty", tyStr(G->getSourceElementType()));
    J.attribute("srcsize",
                (int64_t)(G->getSourceElementType()->isSized()
                              ? DL.getTypeAllocSize(G->getSourceElementType())
                              : 0));
    J.attributeArray("path", [&] {
      Type *Cur = G->getSourceElementType();
      bool first = true;
      for (auto It = G->idx_begin(); It != G->idx_end(); ++It) {
        const Value *Idx = *It;
        J.object([&] {
          if (first) {
            J.attribute("kind", "ptr");
            J.attribute("elsize", (int64_t)(Cur->isSized()
                                                ? DL.getTypeAllocSize(Cur)
                                                : 0));
            J.attributeBegin("idx");
            operand(Idx);
            J.attributeEnd();
          } else if (auto *ST = dyn_cast<StructType>(Cur)) {
            unsigned FI = cast<ConstantInt>(Idx)->getZExtValue();
            J.attribute("kind", "field");
            J.attribute("struct", structName(ST));
            J.attribute("index", (int64_t)FI);
            J.attribute("off", (int64_t)DL.getStructLayout(ST)
                                   ->getElementOffset(FI));
            if (auto *Mb = memberAt(ST, FI))
              J.attribute("field", Mb->name);
            else
              J.attribute("field", "#" + std::to_string(FI));
            Cur = ST->getElementType(FI);
          } else if (auto *AT = dyn_cast<ArrayType>(Cur)) {
            J.attribute("kind", "array");
            J.attribute("count", (int64_t)AT->getNumElements());
            J.attribute("elsize",
                        (int64_t)DL.getTypeAllocSize(AT->getElementType()));
            J.attributeBegin("idx");
            operand(Idx);
            J.attributeEnd();
            Cur = AT->getElementType();
          } else {
            J.attribute("kind", "other");
          }
        });
        first = false;
      }
    });
  }

  void dbgLoc(const Instruction &I) {
    if (const DebugLoc &L = I.getDebugLoc()) {
      J.attribute("line", (int64_t)L.getLine());
      J.attribute("col", (int64_t)L.getCol());
      if (auto *Sc = dyn_cast_or_null<DIScope>(L.getScope())) {
        J.attribute("file", Sc->getFilename());
      }
      if (L.getInlinedAt())
        J.attribute("inlined", true);
    }
  }

  void function(Function &F, FunctionAnalysisManager &FAM) {
    instId.clear();
    blockId.clear();
    unsigned nb = 0, ni = 0;
    for (auto &BB : F) {
      blockId[&BB] = nb++;
      for (auto &I : BB)
        instId[&I] = ni++;
    }
    auto &DT = FAM.getResult<DominatorTreeAnalysis>(F);
    auto &PDT = FAM.getResult<PostDominatorTreeAnalysis>(F);
    auto &LI = FAM.getResult<LoopAnalysis>(F);
    auto &SE = FAM.getResult<ScalarEvolutionAnalysis>(F);

    // source names of SSA values (from dbg.value / dbg.declare)
    DenseMap<const Value *, std::string> srcName;
    for (auto &I : instructions(F))
      if (auto *DV = dyn_cast<DbgVariableIntrinsic>(&I))
        if (auto *V = DV->getVariableLocationOp(0))
          if (!srcName.count(V))
            srcName[V] = DV->getVariable()->getName().str();

    J.object([&] {
      J.attribute("name", F.getName());
      J.attribute("internal", F.hasLocalLinkage());
      J.attribute("ret", tyStr(F.getReturnType()));
      J.attribute("vararg", F.isVarArg());
      if (auto *SP = F.getSubprogram()) {
        J.attribute("file", SP->getFilename());
        J.attribute("line", (int64_t)SP->getLine());
      }
      J.attributeArray("params", [&] {
        for (auto &A : F.args())
          J.object([&] {
            std::string N = A.getName().str();
            if (N.empty()) {
              auto It = srcName.find(&A);
              if (It != srcName.end())
                N = It->second;
            }
            J.attribute("name", N);
            J.attribute("ty", tyStr(A.getType()));
          });
      });
      J.attributeArray("blocks", [&] {
        for (auto &BB : F) {
          J.object([&] {
            J.attribute("id", (int64_t)blockId[&BB]);
            J.attribute("label", BB.getName());
            J.attributeArray("succs", [&] {
              for (auto *S : successors(&BB))
                J.value((int64_t)blockId[S]);
            });
            if (auto *N = DT.getNode(&BB)) {
              if (N->getIDom())
                J.attribute("idom", (int64_t)blockId[N->getIDom()->getBlock()]);
              else
                J.attribute("idom", (int64_t)-1);
            } else
              J.attribute("idom", (int64_t)-2); // unreachable
            if (auto *N = PDT.getNode(&BB)) {
              if (N->getIDom() && N->getIDom()->getBlock())
                J.attribute("ipdom",
                            (int64_t)blockId[N->getIDom()->getBlock()]);
              else
                J.attribute("ipdom", (int64_t)-1);
            } else
              J.attribute("ipdom", (int64_t)-2);
            if (auto *L = LI.getLoopFor(&BB))
              J.attribute("loop", (int64_t)blockId[L->getHeader()]);
            J.attributeArray("insts", [&] {
              for (auto &I : BB) {
                if (isa<DbgInfoIntrinsic>(&I))
                  continue;
                J.object([&] { instruction(I, LI, SE, srcName); });
              }
            });
          });
        }
      });
      J.attributeArray("loops", [&] {
        for (auto *L : LI.getLoopsInPreorder()) {
          J.object([&] {
            J.attribute("header", (int64_t)blockId[L->getHeader()]);
            J.attribute("depth", (int64_t)L->getLoopDepth());
            if (L->getParentLoop())
              J.attribute("parent",
                          (int64_t)blockId[L->getParentLoop()->getHeader()]);
            if (auto *PH = L->getLoopPreheader())
              J.attribute("preheader", (int64_t)blockId[PH]);
            J.attributeArray("blocks", [&] {
              for (auto *BB : L->blocks())
                J.value((int64_t)blockId[BB]);
            });
            SmallVector<BasicBlock *, 4> Latches;
            L->getLoopLatches(Latches);
            J.attributeArray("latches", [&] {
              for (auto *BB : Latches)
                J.value((int64_t)blockId[BB]);
            });
            SmallVector<BasicBlock *, 4> Exiting;
            L->getExitingBlocks(Exiting);
            J.attributeArray("exiting", [&] {
              for (auto *BB : Exiting)
                J.value((int64_t)blockId[BB]);
            });
            SmallVector<BasicBlock *, 4> Exits;
            L->getUniqueExitBlocks(Exits);
            J.attributeArray("exits", [&] {
              for (auto *BB : Exits)
                J.value((int64_t)blockId[BB]);
            });
            J.attributeBegin("btc");
            scev(SE.getBackedgeTakenCount(L), SE);
            J.attributeEnd();
            {
              std::string S;
              raw_string_ostream OS(S);
              SE.getBackedgeTakenCount(L)->print(OS);
              J.attribute("btc_s", OS.str());
            }
          });
        }
      });
    });
  }

  void instruction(Instruction &I, LoopInfo &LI, ScalarEvolution &SE,
                   DenseMap<const Value *, std::string> &srcName) {
    J.attribute("id", (int64_t)instId[&I]);
    J.attribute("op", I.getOpcodeName());
    if (!I.getType()->isVoidTy())
      J.attribute("ty", tyStr(I.getType()));
    {
      auto It = srcName.find(&I);
      if (It != srcName.end())
        J.attribute("var", It->second);
    }
    dbgLoc(I);
    if (auto *CI = dyn_cast<CmpInst>(&I))
      J.attribute("pred", CmpInst::getPredicateName(CI->getPredicate()));
    if (auto *AI = dyn_cast<AllocaInst>(&I)) {
      J.attribute("allocty", tyStr(AI->getAllocatedType()));
      J.attribute("allocsize",
                  (int64_t)DL.getTypeAllocSize(AI->getAllocatedType()));
    }
    if (auto *G = dyn_cast<GetElementPtrInst>(&I))
      gepPath(cast<GEPOperator>(G));
    if (auto *LD = dyn_cast<LoadInst>(&I))
      J.attribute("size", (int64_t)DL.getTypeStoreSize(LD->getType()));
    if (auto *ST = dyn_cast<StoreInst>(&I))
      J.attribute("size", (int64_t)DL.getTypeStoreSize(
                              ST->getValueOperand()->getType()));
    if (auto *C = dyn_cast<CastInst>(&I)) {
      J.attribute("fromty", tyStr(C->getSrcTy()));
    }
    if (auto *CB = dyn_cast<CallBase>(&I)) {
      const Value *Callee = CB->getCalledOperand()->stripPointerCasts();
      if (auto *F = dyn_cast<Function>(Callee)) {
        J.attribute("callee", F->getName());
      } else {
        J.attributeBegin("calleev");
        operand(CB->getCalledOperand());
        J.attributeEnd();
      }
      J.attributeArray("args", [&] {
        for (auto &A : CB->args())
          operand(A.get());
      });
      J.attributeArray("argtys", [&] {
        for (auto &A : CB->args())
          J.value(tyStr(A.get()->getType()));
      });
      return;
    }
    if (auto *P = dyn_cast<PHINode>(&I)) {
      J.attributeArray("incoming", [&] {
        for (unsigned i = 0; i < P->getNumIncomingValues(); ++i)
          J.object([&] {
            J.attribute("block", (int64_t)blockId[P->getIncomingBlock(i)]);
            J.attributeBegin("v");
            operand(P->getIncomingValue(i));
            J.attributeEnd();
          });
      });
    } else if (auto *SW = dyn_cast<SwitchInst>(&I)) {
      J.attributeBegin("cond");
      operand(SW->getCondition());
      J.attributeEnd();
      J.attribute("default", (int64_t)blockId[SW->getDefaultDest()]);
      J.attributeArray("cases", [&] {
        for (auto &C : SW->cases())
          J.object([&] {
            J.attribute("v", (int64_t)C.getCaseValue()->getSExtValue());
            J.attribute("block", (int64_t)blockId[C.getCaseSuccessor()]);
          });
      });
    } else {
      J.attributeArray("ops", [&] {
        for (auto &Op : I.operands())
          operand(Op.get());
      });
    }
    // SCEV for values that live in a loop
    if (LI.getLoopFor(I.getParent()) && SE.isSCEVable(I.getType())) {
      const SCEV *S = SE.getSCEV(&I);
      if (!isa<SCEVUnknown>(S)) {
        J.attributeBegin("scev");
        scev(S, SE);
        J.attributeEnd();
      }
    }
  }

  std::set<std::string> Keep;

  void run() {
    PassBuilder PB;
    LoopAnalysisManager LAM;
    FunctionAnalysisManager FAM;
    CGSCCAnalysisManager CGAM;
    ModuleAnalysisManager MAM;
    PB.registerModuleAnalyses(MAM);
    PB.registerCGSCCAnalyses(CGAM);
    PB.registerFunctionAnalyses(FAM);
    PB.registerLoopAnalyses(LAM);
    PB.crossRegisterProxies(LAM, FAM, CGAM, MAM);
    // Functions that are not on the pinned list (helpers introduced by a later refactoring: a phase of a long function
    // moved into a static function) are expanded into their callers, so that rules anchored in the caller still see the code.
    if (!Keep.empty()) {
      bool Any = false;
      for (auto &F : M)
        if (!F.isDeclaration() && !Keep.count(F.getName().str())) {
          F.removeFnAttr(Attribute::NoInline);
          F.removeFnAttr(Attribute::OptimizeNone);
          F.addFnAttr(Attribute::AlwaysInline);
          Any = true;
        }
      if (Any) {
        ModulePassManager MPM;
        MPM.addPass(AlwaysInlinerPass(false));
        MPM.run(M, MAM);
      }
    }
    FunctionPassManager FPM;
    FPM.addPass(PromotePass());
    FPM.addPass(LoopSimplifyPass());
    FPM.addPass(LCSSAPass());
    FunctionPassManager FPM0;
    FPM0.addPass(PromotePass());
    for (auto &F : M)
      if (!F.isDeclaration()) {
        FPM0.run(F, FAM);
        FAM.invalidate(F, PreservedAnalyses::none());
        // clang -O0 emits `br i1 true/false` for the repo's `cond ? true : false` macros used as
        // conditions: fold those terminators (and drop blocks that became unreachable) so that the
        // CFG only has feasible edges.  Nothing else is simplified.
        bool Changed = false;
        for (auto &BB : F)
          Changed |= ConstantFoldTerminator(&BB, true);
        if (Changed)
          removeUnreachableBlocks(F);
        FPM.run(F, FAM);
        FAM.invalidate(F, PreservedAnalyses::none());
      }

    J.object([&] {
      J.attribute("source", M.getSourceFileName());
      J.attribute("triple", M.getTargetTriple());
      J.attribute("datalayout", M.getDataLayoutStr());
      J.attributeArray("structs", [&] {
        for (auto *ST : M.getIdentifiedStructTypes()) {
          J.object([&] {
            J.attribute("name", structName(ST));
            J.attribute("llvm", ST->getName());
            J.attribute("opaque", ST->isOpaque());
            if (ST->isOpaque())
              return;
            auto *SL = DL.getStructLayout(ST);
            J.attribute("size", (int64_t)SL->getSizeInBytes());
            J.attributeArray("elems", [&] {
              for (unsigned i = 0; i < ST->getNumElements(); ++i)
                J.object([&] {
                  J.attribute("off", (int64_t)SL->getElementOffset(i));
                  J.attribute("size", (int64_t)DL.getTypeAllocSize(
                                          ST->getElementType(i)));
                  J.attribute("ty", tyStr(ST->getElementType(i)));
                  if (auto *Mb = memberAt(ST, i)) {
                    J.attribute("field", Mb->name);
                    J.attribute("dity", Mb->type);
                  }
                });
            });
          });
        }
      });
      J.attributeArray("distructs", [&] {
        for (auto &KV : DIS)
          J.object([&] {
            J.attribute("name", KV.second.name);
            J.attribute("size", (int64_t)(KV.second.sizeBits / 8));
            J.attribute("file", KV.second.file);
            J.attribute("line", (int64_t)KV.second.line);
            J.attributeArray("members", [&] {
              for (auto &Mb : KV.second.members)
                J.object([&] {
                  J.attribute("name", Mb.name);
                  J.attribute("off", (int64_t)(Mb.offBits / 8));
                  J.attribute("size", (int64_t)(Mb.sizeBits / 8));
                  J.attribute("ty", Mb.type);
                });
            });
          });
      });
      J.attributeArray("globals", [&] {
        for (auto &G : M.globals())
          J.object([&] {
            J.attribute("name", G.getName());
            J.attribute("ty", tyStr(G.getValueType()));
            J.attribute("const", G.isConstant());
            J.attribute("internal", G.hasLocalLinkage());
            J.attribute("decl", G.isDeclaration());
            J.attribute("bytes", (int64_t)(G.getValueType()->isSized()
                                               ? DL.getTypeAllocSize(
                                                     G.getValueType())
                                               : 0));
            SmallVector<DIGlobalVariableExpression *, 1> GVs;
            G.getDebugInfo(GVs);
            if (!GVs.empty()) {
              J.attribute("file", GVs[0]->getVariable()->getFilename());
              J.attribute("line", (int64_t)GVs[0]->getVariable()->getLine());
              J.attribute("srcname", GVs[0]->getVariable()->getName());
            }
            if (G.hasInitializer()) {
              J.attributeBegin("init");
              constant(G.getInitializer());
              J.attributeEnd();
            }
          });
      });
      J.attributeArray("decls", [&] {
        for (auto &F : M)
          if (F.isDeclaration())
            J.value(F.getName());
      });
      J.attributeArray("functions", [&] {
        for (auto &F : M)
          if (!F.isDeclaration())
            function(F, FAM);
      });
    });
  }
};

int main(int argc, char **argv) {
  if (argc != 3 && argc != 4) {
    errs() << "usage: ofir-dump <in.ll|bc> <out.json> [pinned-functions.txt]\n";
    return 2;
  }
  LLVMContext Ctx;
  SMDiagnostic Err;
  std::unique_ptr<Module> M = parseIRFile(argv[1], Err, Ctx);
  if (!M) {
    Err.print(argv[0], errs());
    return 2;
  }
  std::error_code EC;
  raw_fd_ostream OS(argv[2], EC);
  if (EC) {
    errs() << "cannot write " << argv[2] << ": " << EC.message() << "\n";
    return 2;
  }
  Dumper D(*M, OS);
  if (argc == 4) {
    std::ifstream In(argv[3]);
    std::string L;
    while (std::getline(In, L))
      if (!L.empty() && L[0] != '#')
        D.Keep.insert(L);
  }
  D.run();
  OS << "\n";
  return 0;
}
