/* Probe unit (never linked, never run): keeps the header-defined GF tables that no
 * library unit references (the log tables) alive so that their initialisers appear
 * in the IR and R-TABLES can compare them with the reference field arithmetic. */
#include "lib_stable/reed-solomon_gf_2_m/of_reed-solomon_gf_2_m_includes.h"
const void *ofverif_probe_tables[] = {
	of_gf_2_4_log, of_gf_2_4_exp, of_gf_2_4_inv, of_gf_2_4_mul_table, of_gf_2_4_opt_mul_table,
	of_gf_2_8_log, of_gf_2_8_exp, of_gf_2_8_inv, of_gf_2_8_mul_table
};
