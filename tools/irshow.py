#!/usr/bin/python3
"""tools/irshow.py <function> [config]  -- print a function of the program database in readable form."""
import sys, os
sys.path.insert(0, os.path.dirname(os.path.dirname(os.path.abspath(__file__))))
from ofverif import pdb
from ofverif.ir import Terms, show
p = pdb.load(sys.argv[2] if len(sys.argv) > 2 else 'release')
for f in p.all_functions:
    if f.name != sys.argv[1]:
        continue
    tt = Terms(f)
    print('function', f.name, [(q['name'], q['ty']) for q in f.params], '->', f.ret, f.unit.name)
    for l in f.loops.values():
        print('  loop header bb%d depth %d blocks %s latches %s exits %s btc %s' % (l.header.id, l.depth, sorted(l.blocks), [b.id for b in l.latches], [b.id for b in l.exits], l.btc_s))
    for b in f.blocks:
        print(' bb%d  preds %s succs %s idom %s loop %s' % (b.id, [x.id for x in b.preds], [x.id for x in b.succs], b.idom.id if b.idom else None, b.loop))
        for i in b.insts:
            if i.op == 'call':
                d = '%s(%s)' % (i.callee or 'INDIRECT:' + show(tt.term(i.calleev)), ', '.join(show(tt.term(a)) for a in i.args))
            elif i.op == 'store':
                d = '%s := %s' % (show(tt.term(i.ops[1])), show(tt.term(i.ops[0])))
            elif i.op == 'br':
                d = show(tt.term(i.ops[0])) if len(i.ops) == 3 else ''
            elif i.op == 'switch':
                d = '%s %s default bb%d' % (show(tt.term(i.cond)), i.cases, i.default)
            elif i.op == 'phi':
                d = ' '.join('[bb%d: %s]' % (bid, show(tt.term(v))) for bid, v in i.incoming)
            elif i.op == 'ret':
                d = show(tt.term(i.ops[0])) if i.ops else ''
            else:
                d = show(tt.term(type('X', (), {'k': 'i', 'inst': i})()))
            print('    %%%-4d %-6s %-14s L%-4s %s' % (i.id, i.op, i.var or '', i.line, d[:200]))
