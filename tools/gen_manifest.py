#!/usr/bin/python3
"""Regenerates /verif/MANIFEST.json from ofverif.props.PROPS and the texts in ofverif/claims.py."""
import json
import os
import sys
sys.path.insert(0, os.path.dirname(os.path.dirname(os.path.abspath(__file__))))
from ofverif import props, claims

ALL = ['C%02d' % i for i in range(1, 21)]
checks = []
na = []
for pid in ALL:
    if pid in props.PROPS and pid in claims.CLAIMS:
        c = claims.CLAIMS[pid]
        checks.append({
            'property_id': pid,
            'quick_cmd': './check %s --tier quick' % pid,
            'thorough_cmd': './check %s --tier thorough' % pid,
            'evidence_file': '/verif/evidence/%s.json' % pid,
            'replay_cmd_template': './check --explain {path}',
            'engine': 'ofverif',
            'level_claimed': {'category': 'other', 'text': c['text'], 'design_ref': c['design_ref']},
            'level_note': c['note'],
            'technique': c['technique'],
        })
    else:
        na.append({'property_id': pid, 'reason': claims.NA.get(pid, 'no static check built for this property in this revision')})
m = {
    'version': 1,
    'setup_cmd': 'make -C /verif',
    'hooks': {'guard': 'OPENFEC_VERIF', 'enable': 'none needed: the checks analyse the unmodified sources (no hooks in /repo)',
              'baseline_off_cmd': 'cmake -G Ninja -S /repo -B /repo/_build >/dev/null && cmake --build /repo/_build >/dev/null && ctest --test-dir /repo/_build -j8 --timeout 900',
              'source_commits': [], 'add_only': True},
    'engines': [{'name': 'ofverif', 'path': '/verif/check', 'serves_properties': [c['property_id'] for c in checks],
                 'kind_free_text': 'custom static analyser: clang -O0 -g LLVM IR of every library unit (flags from the cmake compile '
                 'database) -> ofir-dump (libLLVM-14: mem2reg, loop-simplify, lcssa, dominators, ScalarEvolution, debug-info '
                 'layouts) -> JSON program database -> repository-specific rules in Python (dominance/guard, value-origin, '
                 'effect, ownership, layout, constant-data rules). No library code is executed.'}],
    'checks': checks,
    'not_applicable': na,
    'notes': 'Exit codes: 0 held / 1 VIOLATION / 2 ANALYSIS-BROKEN (cannot decide: tree does not compile, anchor vanished, rule '
             'instance floor missed). Known findings: /verif/known_findings.json. Design: /verif/DESIGN.md.',
}
json.dump(m, open(os.path.join(os.path.dirname(os.path.dirname(os.path.abspath(__file__))), 'MANIFEST.json'), 'w'), indent=1)
print('claimed', [c['property_id'] for c in checks])
print('n/a', [x['property_id'] for x in na])
