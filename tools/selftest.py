#!/usr/bin/python3
"""Self-test of the checker (DESIGN.md section 9): applies one source mutation at a time to a scratch copy
of /repo (outside /repo and /verif), runs the owning check on the copy and requires the expected verdict.
   tools/selftest.py [-k substring] [--with-tests] [-j N]
Mutants live in selftest/mutants.py.  Nothing is ever written to /repo."""
import argparse
import importlib.util
import os
import shutil
import subprocess
import sys
import tempfile
from concurrent.futures import ThreadPoolExecutor

VERIF = os.path.dirname(os.path.dirname(os.path.abspath(__file__)))
REPO = '/repo'


def load_mutants():
    spec = importlib.util.spec_from_file_location('mutants', os.path.join(VERIF, 'selftest', 'mutants.py'))
    m = importlib.util.module_from_spec(spec)
    spec.loader.exec_module(m)
    return m.MUTANTS


def make_copy():
    d = tempfile.mkdtemp(prefix='ofselftest-')
    subprocess.check_call(['rsync', '-a', '--exclude', '_build', '--exclude', '.git', '--exclude', 'bin', REPO + '/', d + '/repo/'])
    return d


def run_one(m, with_tests):
    d = make_copy()
    try:
        repo = os.path.join(d, 'repo')
        for ed in m['edits']:
            if 'revert' in ed:
                # undo one fix commit of /repo in the scratch copy (the defect it repaired must be reported again)
                d1 = subprocess.run(['git', '-C', REPO, 'diff', ed['revert'] + '~1', ed['revert']], stdout=subprocess.PIPE)
                r1 = subprocess.run(['patch', '-p1', '-R', '-s', '-d', repo], input=d1.stdout, stdout=subprocess.PIPE,
                                    stderr=subprocess.STDOUT)
                if r1.returncode != 0:
                    return m, 'MUTANT-STALE', 'revert of %s does not apply: %s' % (ed['revert'], r1.stdout.decode()[-200:])
                continue
            if 'patch' in ed:
                # an archived seeded change (unified diff relative to the repository root)
                r1 = subprocess.run(['patch', '-p1', '-s', '-d', repo, '-i', os.path.join(VERIF, ed['patch'])],
                                    stdout=subprocess.PIPE, stderr=subprocess.STDOUT)
                if r1.returncode != 0:
                    return m, 'MUTANT-STALE', 'patch %s does not apply: %s' % (ed['patch'], r1.stdout.decode()[-200:])
                continue
            p = os.path.join(repo, ed['file'])
            s = open(p).read()
            n = s.count(ed['old'])
            if n != ed.get('count', 1):
                return m, 'MUTANT-STALE', 'pattern occurs %d times in %s' % (n, ed['file'])
            s = s.replace(ed['old'], ed['new'])
            open(p, 'w').write(s)
        env = dict(os.environ, OFVERIF_REPO=repo, OFVERIF_EVIDENCE_DIR=os.path.join(d, 'ev'),
                   OFVERIF_REPLAY_DIR=os.path.join(d, 'replay'), OFVERIF_CACHE=os.path.join(d, 'cache'))
        out = ''
        results = []
        for prop in m['props']:
            r = subprocess.run([os.path.join(VERIF, 'check'), prop], env=env, stdout=subprocess.PIPE,
                               stderr=subprocess.STDOUT, universal_newlines=True)
            results.append((prop, r.returncode, r.stdout))
        tests = ''
        if with_tests:
            b = os.path.join(d, 'build')
            r = subprocess.run('cmake -G Ninja -S %s -B %s >/dev/null 2>&1 && cmake --build %s 2>&1 | tail -3 && '
                               'ctest --test-dir %s -j4 --timeout 900 2>&1 | tail -3' % (repo, b, b, b),
                               shell=True, stdout=subprocess.PIPE, stderr=subprocess.STDOUT, universal_newlines=True)
            tests = 'tests-pass' if '100% tests passed' in r.stdout else 'TESTS-FAIL: ' + r.stdout[-300:]
        expect = m.get('expect', 1)
        verdicts = []
        okall = True
        for prop, rc, txt in results:
            if expect == 1:
                good = rc == 1 and 'VIOLATION property=%s' % prop in txt
                if good and m.get('rule'):
                    good = m['rule'] in txt
            else:
                good = rc == expect and 'VIOLATION' not in txt
            okall = okall and good
            verdicts.append('%s rc=%d' % (prop, rc))
            if not good:
                out += txt[-1500:]
        return m, ('ok' if okall else 'FAIL'), ' '.join(verdicts) + ' ' + tests + ('\n' + out if not okall else '')
    finally:
        shutil.rmtree(d, ignore_errors=True)


def main():
    ap = argparse.ArgumentParser()
    ap.add_argument('-k', default='')
    ap.add_argument('--with-tests', action='store_true')
    ap.add_argument('-j', type=int, default=8)
    a = ap.parse_args()
    ms = [m for m in load_mutants() if a.k in m['name'] or a.k in ' '.join(m['props'])]
    bad = 0
    with ThreadPoolExecutor(max_workers=a.j) as ex:
        for m, v, info in ex.map(lambda m: run_one(m, a.with_tests), ms):
            print('%-8s %-44s %s' % (v, m['name'], info))
            if v != 'ok':
                bad += 1
    print('%d mutants, %d not as expected' % (len(ms), bad))
    return 1 if bad else 0


if __name__ == '__main__':
    sys.exit(main())
