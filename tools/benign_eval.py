#!/usr/bin/python3
"""tools/benign_eval.py <patch dir> [<id>] [--tier quick|thorough] [--keep]

A behaviour-preserving change (patch.diff + notes.txt, produced by an independent sub-agent that saw nothing of /verif) is applied
to a scratch worktree of /repo; every claimed check is run against it.  Any exit code other than 0 is a false alarm of that
check (1) or an anchor that is too brittle (2).  With --keep the change is archived under /verif/benign/<id>/ with the verdicts."""
import json, os, shutil, subprocess, sys, tempfile
from concurrent.futures import ThreadPoolExecutor
V = os.path.dirname(os.path.dirname(os.path.abspath(__file__)))


def main():
    args = [a for a in sys.argv[1:] if not a.startswith('--')]
    src = args[0]
    bid = args[1] if len(args) > 1 else os.path.basename(os.path.normpath(src))
    tier = sys.argv[sys.argv.index('--tier') + 1] if '--tier' in sys.argv else 'quick'
    keep = '--keep' in sys.argv
    patch = os.path.join(src, 'patch.diff')
    w = tempfile.mkdtemp(prefix='ofbenign.')
    wt = os.path.join(w, 'repo')
    subprocess.run(['git', '-C', '/repo', 'worktree', 'add', '--detach', wt, 'HEAD'], stdout=subprocess.DEVNULL, stderr=subprocess.DEVNULL)
    res = {'id': bid, 'tier': tier, 'applies': False, 'nonzero': {}}
    try:
        r = subprocess.run(['git', '-C', wt, 'apply', os.path.abspath(patch)], stdout=subprocess.PIPE, stderr=subprocess.STDOUT, universal_newlines=True)
        if r.returncode != 0:
            res['apply_error'] = r.stdout[-300:]
            print(json.dumps(res, indent=1))
            return
        res['applies'] = True
        props = [p['property_id'] for p in json.load(open(os.path.join(V, 'MANIFEST.json')))['checks']]
        env = dict(os.environ, OFVERIF_REPO=wt, OFVERIF_EVIDENCE_DIR=os.path.join(w, 'ev'), OFVERIF_REPLAY_DIR=os.path.join(w, 'replay'),
                   OFVERIF_CACHE=os.path.join(w, 'cache'))
        # build the program database once, then fan out
        subprocess.run([os.path.join(V, 'check'), props[0], '--tier', tier], env=env, stdout=subprocess.DEVNULL, stderr=subprocess.DEVNULL)

        def one(p):
            r = subprocess.run([os.path.join(V, 'check'), p, '--tier', tier], env=env, stdout=subprocess.PIPE, stderr=subprocess.STDOUT,
                               universal_newlines=True)
            return p, r.returncode, r.stdout
        with ThreadPoolExecutor(max_workers=8) as ex:
            for p, rc, out in ex.map(one, props):
                if rc != 0:
                    lines = [l for l in out.splitlines() if ': R-' in l or l.startswith('ANALYSIS-BROKEN')]
                    res['nonzero'][p] = {'rc': rc, 'lines': [l.replace(wt + '/', '')[:400] for l in lines[:6]]}
    finally:
        subprocess.run(['git', '-C', '/repo', 'worktree', 'remove', '--force', wt], stdout=subprocess.DEVNULL, stderr=subprocess.DEVNULL)
        shutil.rmtree(w, ignore_errors=True)
    print(json.dumps(res, indent=1))
    if keep:
        dst = os.path.join(V, 'benign', bid)
        os.makedirs(dst, exist_ok=True)
        for n in ('patch.diff', 'notes.txt'):
            if os.path.exists(os.path.join(src, n)) and os.path.abspath(src) != os.path.abspath(dst):
                shutil.copy(os.path.join(src, n), os.path.join(dst, n))
        meta = {'id': bid, 'origin': 'independent sub-agent asked for behaviour-preserving maintenance edits; it saw nothing of /verif',
                'checks_run': 'every claimed check, tier %s, against a scratch worktree with the change applied' % tier,
                'alarms': res['nonzero']}
        json.dump(meta, open(os.path.join(dst, 'meta.json'), 'w'), indent=1)


main()
