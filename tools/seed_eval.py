#!/usr/bin/python3
"""tools/seed_eval.py <dir with patch.diff + demo.c|demo.sh> [--name ID] [--props C01,C02] [--skip-confirm]
1. confirms the seeded change in a scratch worktree of /repo (outside /repo and /verif): builds, the 265 tests pass,
   the demonstration fails with the change and passes without it;
2. applies the patch to /repo's working tree, runs every claimed quick check, undoes it (git checkout -- .);
prints which checks reported a VIOLATION.  Removes the scratch worktree."""
import argparse, json, os, shutil, subprocess, sys, tempfile
V = os.path.dirname(os.path.dirname(os.path.abspath(__file__)))


def sh(cmd, **kw):
    return subprocess.run(cmd, shell=True, stdout=subprocess.PIPE, stderr=subprocess.STDOUT, universal_newlines=True, **kw)


def main():
    ap = argparse.ArgumentParser()
    ap.add_argument('dir')
    ap.add_argument('--props', default='')
    ap.add_argument('--skip-confirm', action='store_true')
    a = ap.parse_args()
    d = os.path.abspath(a.dir)
    patch = os.path.join(d, 'patch.diff')
    res = {'patch': patch}
    if not a.skip_confirm:
        wt = tempfile.mkdtemp(prefix='seedverify-')
        os.rmdir(wt)
        try:
            r = sh('git -C /repo worktree add --detach %s HEAD' % wt)
            r = sh('git -C %s apply %s' % (wt, patch))
            res['applies'] = r.returncode == 0
            if r.returncode != 0:
                print(r.stdout)
            r = sh('cd %s && cmake -G Ninja -S . -B _build >/dev/null 2>&1 && cmake --build _build 2>&1 | tail -2 && ctest --test-dir _build -j8 --timeout 900 2>&1 | tail -4' % wt)
            res['tests_pass_with_change'] = '100% tests passed' in r.stdout
            demo = None
            for n in ('demo.c', 'demo.sh'):
                if os.path.exists(os.path.join(d, n)):
                    demo = os.path.join(d, n)

            def run_demo(leaks):
                if demo.endswith('.c'):
                    # a demonstration that needs a unit's static data #includes that unit: leave it out of the source list
                    import re
                    inc = re.findall(r'#include\s+"(src/[^"]+\.c)"', open(demo).read())
                    excl = ''.join(" | grep -v '%s'" % x for x in inc)
                    b = sh('cd %s && clang -g -O1 -fsanitize=address -DOPENFEC_LITTLE_ENDIAN -DNDEBUG -w -Isrc/lib_common -Isrc -I. %s '
                           '$(find src -name "*.c" | grep -v ldpc_from_file%s) -lm -o /tmp/%s.demo 2>&1 | tail -3' % (wt, demo, excl, os.path.basename(wt)))
                    r = sh('cd %s && ASAN_OPTIONS=detect_leaks=%d timeout 600 /tmp/%s.demo' % (wt, leaks, os.path.basename(wt)))
                    os.path.exists('/tmp/%s.demo' % os.path.basename(wt)) and os.unlink('/tmp/%s.demo' % os.path.basename(wt))
                    return r.returncode, (b.stdout + r.stdout)[-600:]
                r = sh('cd %s && timeout 600 sh %s' % (wt, demo))
                return r.returncode, r.stdout[-600:]
            if demo:
                with_c = dict((lk, run_demo(lk)) for lk in (0, 1))
                sh('git -C %s checkout -- .' % wt)
                without = dict((lk, run_demo(lk)) for lk in (0, 1))
                # confirmed under a leak-checking setting for which the clean tree passes and the changed tree fails
                good = [lk for lk in (1, 0) if with_c[lk][0] != 0 and without[lk][0] == 0]
                res['demo_fails_with_change'] = bool(good)
                res['demo_passes_without'] = bool(good) or any(without[lk][0] == 0 for lk in (0, 1))
                res['demo_leak_check'] = good[0] if good else None
                res['demo_out_with'] = with_c[good[0] if good else 0][1][-300:]
        finally:
            sh('git -C /repo worktree remove --force %s' % wt)
            shutil.rmtree(wt, ignore_errors=True)
    # run the checks against /repo with the patch applied
    st = sh('git -C /repo status --porcelain --untracked-files=no')
    if st.stdout.strip():
        print('refusing: /repo working tree is dirty'); return 2
    m = json.load(open(os.path.join(V, 'MANIFEST.json')))
    props = [c['property_id'] for c in m['checks']]
    if a.props:
        props = a.props.split(',')
    det = {}
    try:
        r = sh('git -C /repo apply %s' % patch)
        if r.returncode != 0:
            print('patch does not apply to /repo', r.stdout); return 2
        env = dict(os.environ, OFVERIF_EVIDENCE_DIR='/tmp/seed-ev', OFVERIF_REPLAY_DIR='/tmp/seed-replay')
        for p in props:
            r = subprocess.run([os.path.join(V, 'check'), p], stdout=subprocess.PIPE, stderr=subprocess.STDOUT, universal_newlines=True, env=env)
            rules = sorted(set(l.split(': ')[1] for l in r.stdout.splitlines() if ': R-' in l and 'VIOLATION' not in l and 'KNOWN' not in l and l.count(': ') >= 2))
            det[p] = (r.returncode, rules)
    finally:
        sh('git -C /repo checkout -- .')
        shutil.rmtree('/tmp/seed-ev', ignore_errors=True); shutil.rmtree('/tmp/seed-replay', ignore_errors=True)
    res['detected_by'] = dict((p, v[1]) for p, v in det.items() if v[0] == 1)
    res['broken'] = [p for p, v in det.items() if v[0] == 2]
    print(json.dumps(res, indent=1))
    return 0


if __name__ == '__main__':
    sys.exit(main())
