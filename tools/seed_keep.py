#!/usr/bin/python3
"""tools/seed_keep.py <agent out dir> <seed id> <property> : confirm a seeded change (tools/seed_eval.py), run all claimed
checks against it and archive it under /verif/seeded/<seed id>/ (patch.diff, demonstration, notes, meta.json)."""
import json, os, shutil, subprocess, sys
V = os.path.dirname(os.path.dirname(os.path.abspath(__file__)))
src, sid, prop = sys.argv[1], sys.argv[2], sys.argv[3]
r = subprocess.run([os.path.join(V, 'tools', 'seed_eval.py'), src], stdout=subprocess.PIPE, universal_newlines=True)
out = r.stdout
res = json.loads(out[out.index('{'):])
dst = os.path.join(V, 'seeded', sid)
os.makedirs(dst, exist_ok=True)
for n in ('patch.diff', 'demo.c', 'demo.sh', 'notes.txt'):
    if os.path.exists(os.path.join(src, n)):
        shutil.copy(os.path.join(src, n), os.path.join(dst, n))
notes = open(os.path.join(src, 'notes.txt')).read() if os.path.exists(os.path.join(src, 'notes.txt')) else ''
meta = {
    'seed': sid, 'breaks_property': prop, 'origin': 'independent sub-agent given only the property text and a scratch worktree',
    'confirmed': {k: res.get(k) for k in ('applies', 'tests_pass_with_change', 'demo_fails_with_change', 'demo_passes_without', 'demo_leak_check')},
    'what_it_needs_to_manifest': next((l.strip() for l in notes.splitlines() if 'need' in l.lower() or 'manifest' in l.lower()), ''),
    'ran': ['tools/seed_eval.py %s  (scratch worktree: git apply, cmake+ninja build, ctest 265 tests, ASan demo with and without the change; '
            'then git -C /repo apply, every quick check of MANIFEST.json, git -C /repo checkout -- .)' % src],
    'detected_by': res.get('detected_by', {}),
    'checks_answering_analysis_broken': res.get('broken', []),
}
json.dump(meta, open(os.path.join(dst, 'meta.json'), 'w'), indent=1)
ok = all(meta['confirmed'].get(k) for k in ('applies', 'tests_pass_with_change', 'demo_fails_with_change', 'demo_passes_without'))
print(sid, 'CONFIRMED' if ok else 'NOT-CONFIRMED %s' % meta['confirmed'], 'detected by', meta['detected_by'] or 'NOTHING')
