#!/usr/bin/python3
"""Re-run every claimed check (quick, or --tier thorough) against every archived behaviour-preserving change (benign/*/patch.diff);
any non-zero exit is a false alarm to repair.  Refreshes benign/*/meta.json."""
import json, os, subprocess, sys
V = os.path.dirname(os.path.dirname(os.path.abspath(__file__)))
tier = sys.argv[sys.argv.index('--tier') + 1] if '--tier' in sys.argv else 'quick'
bad = 0
n = 0
for bid in sorted(os.listdir(os.path.join(V, 'benign'))):
    d = os.path.join(V, 'benign', bid)
    if not os.path.exists(os.path.join(d, 'patch.diff')):
        continue
    r = subprocess.run([os.path.join(V, 'tools', 'benign_eval.py'), d, bid, '--tier', tier] + (['--keep'] if tier == 'quick' else []),
                       stdout=subprocess.PIPE, universal_newlines=True)
    t = r.stdout
    res = json.loads(t[t.index('{'):])
    n += 1
    if not res['applies']:
        print('%-6s STALE (does not apply)' % bid)
        continue
    if res['nonzero']:
        bad += 1
    print('%-6s %s' % (bid, ('ALARMS ' + json.dumps(res['nonzero'])[:600]) if res['nonzero'] else 'silent'))
print('%d behaviour-preserving changes, %d with an alarm (tier %s)' % (n, bad, tier))
sys.exit(1 if bad else 0)
