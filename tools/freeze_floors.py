#!/usr/bin/python3
"""Freeze per-(property, tier, rule) instance floors from a run on the current tree (after the counts have been reconciled
with the hand counts of DESIGN.md).  floor = 60% of the observed count, at least 1: enough to notice a vanished anchor,
loose enough not to trip on a refactoring that removes a few redundant instances."""
import json, os, subprocess, sys
V = os.path.dirname(os.path.dirname(os.path.abspath(__file__)))
sys.path.insert(0, V)
from ofverif import props
out = {}
fp = os.path.join(V, 'ofverif', 'floors.json')
if os.path.exists(fp):
    os.unlink(fp)
for pid in sorted(props.PROPS):
    for tier in ('quick', 'thorough'):
        env = dict(os.environ, OFVERIF_EVIDENCE_DIR='/tmp/of-freeze-ev', OFVERIF_FREEZING='1')
        r = subprocess.run([os.path.join(V, 'check'), pid, '--tier', tier], env=env, stdout=subprocess.PIPE, universal_newlines=True)
        ev = json.load(open('/tmp/of-freeze-ev/%s.json' % pid))
        out.setdefault(pid, {})[tier] = dict((k, max(1, int(v['instances'] * 0.6))) for k, v in ev['coverage']['per_rule'].items())
        print(pid, tier, r.returncode, out[pid][tier])
json.dump(out, open(fp, 'w'), indent=1, sort_keys=True)
subprocess.run(['rm', '-rf', '/tmp/of-freeze-ev'])
