#!/usr/bin/python3
"""Re-run every claimed quick check against every archived seeded change (seeded/*/patch.diff) and refresh the
`detected_by` / `checks_answering_analysis_broken` fields of its meta.json.  Prints a summary table."""
import json, os, subprocess, sys
V = os.path.dirname(os.path.dirname(os.path.abspath(__file__)))
rows = []
for sid in sorted(os.listdir(os.path.join(V, 'seeded'))):
    d = os.path.join(V, 'seeded', sid)
    if not os.path.exists(os.path.join(d, 'patch.diff')):
        continue
    r = subprocess.run([os.path.join(V, 'tools', 'seed_eval.py'), d, '--skip-confirm'], stdout=subprocess.PIPE, universal_newlines=True)
    t = r.stdout
    if '{' not in t:
        print('%-7s STALE: %s' % (sid, t.strip()[-160:]))
        continue
    res = json.loads(t[t.index('{'):])
    m = json.load(open(os.path.join(d, 'meta.json')))
    m['detected_by'] = res['detected_by']
    m['checks_answering_analysis_broken'] = res['broken']
    json.dump(m, open(os.path.join(d, 'meta.json'), 'w'), indent=1)
    own = m['breaks_property']
    rows.append((sid, own, own in res['detected_by'], sorted(res['detected_by']), res['broken']))
    print('%-7s own-property-check:%-5s detected by %s %s' % (sid, 'yes' if own in res['detected_by'] else 'NO', sorted(res['detected_by']) or 'NOTHING',
                                                              ('broken: %s' % res['broken']) if res['broken'] else ''))
print('%d seeds, %d detected by some check, %d by the check of the property they were written against' %
      (len(rows), sum(1 for r in rows if r[3]), sum(1 for r in rows if r[2])))
