#!/usr/bin/python3
"""Metamorphic self-test of the checker.  The program database is loaded with every comparison between two non-constant operands
spelt the other way round (OFVERIF_MIRROR: a < b -> b > a) or with every conditional branch negated and its successors exchanged
(OFVERIF_NEGATE: if (c) X else Y -> if (!c) Y else X), or with the operands of every commutative operation exchanged
(OFVERIF_COMMUTE: a + b -> b + a, 31 & x -> x & 31).  Each is the same program, so (1) every check must still pass on the
unchanged tree in both tiers and (2) every mutant of the self-test must still be reported.  Usage: tools/metamorphic.py [-j N]"""
import os, subprocess, sys
V = os.path.dirname(os.path.dirname(os.path.abspath(__file__)))
j = sys.argv[sys.argv.index('-j') + 1] if '-j' in sys.argv else '16'
props = ['C%02d' % i for i in range(1, 20)]
bad = 0
for mode, val in (('OFVERIF_MIRROR', '1'), ('OFVERIF_NEGATE', '1'), ('OFVERIF_COMMUTE', '2')):
    env = dict(os.environ, **{mode: val, 'OFVERIF_FREEZING': '1', 'OFVERIF_EVIDENCE_DIR': '/tmp/of-meta-ev', 'OFVERIF_REPLAY_DIR': '/tmp/of-meta-ev'})
    for tier in ('quick', 'thorough'):
        for p in props:
            r = subprocess.run([os.path.join(V, 'check'), p, '--tier', tier], env=env, stdout=subprocess.PIPE, stderr=subprocess.STDOUT,
                               universal_newlines=True)
            if r.returncode != 0:
                bad += 1
                print('%s %s %s: exit %d\n%s' % (mode, p, tier, r.returncode, '\n'.join(l[:300] for l in r.stdout.splitlines() if ': R-' in l or 'ANALYSIS' in l)))
    r = subprocess.run([os.path.join(V, 'tools', 'selftest.py'), '-j', j], env=env, stdout=subprocess.PIPE, stderr=subprocess.STDOUT, universal_newlines=True)
    last = r.stdout.strip().splitlines()[-1]
    print(mode, 'self-test:', last)
    if ', 0 not as expected' not in last:
        bad += 1
        print('\n'.join(l for l in r.stdout.splitlines() if l.startswith('FAIL')))
subprocess.run(['rm', '-rf', '/tmp/of-meta-ev'])
print('metamorphic self-test:', 'clean' if not bad else '%d problem(s)' % bad)
sys.exit(1 if bad else 0)
