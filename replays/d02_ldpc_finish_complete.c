/* D2: LDPC of_finish_decoding on an already complete session must return OK */
#include "common.h"
int main(void) {
	of_session_t *s; of_ldpc_parameters_t p; unsigned char src[10][32];
	memset(&p, 0, sizeof p); p.nb_source_symbols = 10; p.nb_repair_symbols = 5; p.encoding_symbol_length = 32; p.prng_seed = 1; p.N1 = 3;
	of_create_codec_instance(&s, OF_CODEC_LDPC_STAIRCASE_STABLE, OF_DECODER, 0);
	if (of_set_fec_parameters(s, (of_parameters_t*)&p) != OF_STATUS_OK) return 3;
	for (int i = 0; i < 10; i++) { fill(src[i], 32, i); of_decode_with_new_symbol(s, src[i], i); }
	int c0 = of_is_decoding_complete(s);
	of_status_t st = of_finish_decoding(s);
	int c1 = of_is_decoding_complete(s);
	of_status_t st2 = of_finish_decoding(s);
	printf("RESULT complete_before=%d finish=%d complete_after=%d second_finish=%d %s\n", c0, st, c1, st2, (st == 0 && st2 == 0 && c1) ? "GOOD" : "BAD");
	of_release_codec_instance(s);
	return (st == 0 && st2 == 0) ? 0 : 1;
}
