/* D5: source symbols recovered by Gaussian elimination must go through the decoded-source callback */
#include "common.h"
static int calls; static void *bufs[64]; static int esis[64];
static void *cb(void *ctx, UINT32 size, UINT32 esi) { void *b = malloc(size); bufs[calls] = b; esis[calls] = esi; calls++; return b; }
int main(void) {
	enum { K = 12, R = 8, L = 32 };
	of_session_t *e, *d; of_ldpc_parameters_t p; unsigned char src[K][L]; void *tab[K + R];
	memset(&p, 0, sizeof p); p.nb_source_symbols = K; p.nb_repair_symbols = R; p.encoding_symbol_length = L; p.prng_seed = 10; p.N1 = 3;
	of_create_codec_instance(&e, OF_CODEC_LDPC_STAIRCASE_STABLE, OF_ENCODER, 0); of_set_fec_parameters(e, (of_parameters_t*)&p);
	for (int i = 0; i < K; i++) { fill(src[i], L, i); tab[i] = src[i]; }
	for (int i = K; i < K + R; i++) { tab[i] = calloc(1, L); of_build_repair_symbol(e, tab, i); }
	int best = -1;
	for (unsigned mask = 1; mask < (1u << K) && best < 0; mask++) {           /* search a loss pattern that needs Gaussian elimination */
		if (__builtin_popcount(mask) > R - 1) continue;
		of_create_codec_instance(&d, OF_CODEC_LDPC_STAIRCASE_STABLE, OF_DECODER, 0); of_set_fec_parameters(d, (of_parameters_t*)&p);
		calls = 0; of_set_callback_functions(d, cb, NULL, NULL);
		for (int i = 0; i < K + R; i++) if (i >= K || !(mask & (1u << i))) of_decode_with_new_symbol(d, tab[i], i);
		int it_calls = calls, it_complete = of_is_decoding_complete(d);
		of_status_t fin = it_complete ? 0 : of_finish_decoding(d);
		if (!it_complete && fin == OF_STATUS_OK) {
			void *out[K]; of_get_source_symbols_tab(d, out);
			int lost = __builtin_popcount(mask), ok = 1, viacb = 0;
			for (int i = 0; i < K; i++) if (mask & (1u << i)) { if (!out[i] || memcmp(out[i], src[i], L)) ok = 0; for (int c = 0; c < calls; c++) if (bufs[c] == out[i] && esis[c] == i) viacb++; }
			printf("RESULT mask=%x lost=%d decoded_ok=%d callbacks=%d (it phase %d) reported_in_callback_buffers=%d %s\n", mask, lost, ok, calls, it_calls, viacb, (calls == lost && viacb == lost && ok) ? "GOOD" : "BAD");
			best = mask;
		}
		of_release_codec_instance(d);
	}
	return 0;
}
