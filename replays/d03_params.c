/* D3: parameters outside the advertised limits must be rejected */
#include "common.h"
static int try_rs(int codec, unsigned k, unsigned r, unsigned len, unsigned m) {
	of_session_t *s; of_rs_2_m_parameters_t p; memset(&p, 0, sizeof p); p.nb_source_symbols = k; p.nb_repair_symbols = r; p.encoding_symbol_length = len; p.m = m;
	of_create_codec_instance(&s, codec, OF_ENCODER_AND_DECODER, 0); int st = of_set_fec_parameters(s, (of_parameters_t*)&p); of_release_codec_instance(s); return st; }
static int try_ldpc(unsigned k, unsigned r, unsigned len, int seed, unsigned n1) {
	of_session_t *s; of_ldpc_parameters_t p; memset(&p, 0, sizeof p); p.nb_source_symbols = k; p.nb_repair_symbols = r; p.encoding_symbol_length = len; p.prng_seed = seed; p.N1 = n1;
	of_create_codec_instance(&s, OF_CODEC_LDPC_STAIRCASE_STABLE, OF_ENCODER_AND_DECODER, 0); int st = of_set_fec_parameters(s, (of_parameters_t*)&p); of_release_codec_instance(s); return st; }
int main(void) {
	int bad = 0;
#define EXPECT_REJ(x, what) do { int st = (x); if (st == 0) { bad++; printf("accepted: %s\n", what); } } while (0)
#define EXPECT_OK(x, what) do { int st = (x); if (st != 0) { bad++; printf("rejected: %s\n", what); } } while (0)
	EXPECT_REJ(try_rs(1, 0, 4, 16, 0), "RS28 k=0"); EXPECT_REJ(try_rs(1, 4, 0, 16, 0), "RS28 r=0"); EXPECT_REJ(try_rs(1, 4, 4, 0, 0), "RS28 len=0");
	EXPECT_REJ(try_rs(1, 200, 200, 16, 0), "RS28 n=400"); EXPECT_REJ(try_rs(1, 4, 0xFFFFFFFEu, 16, 0), "RS28 r wraps");
	EXPECT_OK(try_rs(1, 200, 55, 16, 0), "RS28 (200,255)"); EXPECT_OK(try_rs(1, 1, 1, 1, 0), "RS28 (1,2)");
	EXPECT_REJ(try_rs(2, 0, 4, 16, 8), "RS2m k=0"); EXPECT_REJ(try_rs(2, 4, 0, 16, 8), "RS2m r=0"); EXPECT_REJ(try_rs(2, 4, 4, 0, 8), "RS2m len=0");
	EXPECT_REJ(try_rs(2, 10, 10, 16, 4), "RS2m m=4 n=20"); EXPECT_REJ(try_rs(2, 200, 200, 16, 8), "RS2m m=8 n=400"); EXPECT_REJ(try_rs(2, 4, 4, 16, 5), "RS2m m=5");
	EXPECT_OK(try_rs(2, 10, 5, 16, 4), "RS2m m=4 (10,15)"); EXPECT_OK(try_rs(2, 200, 55, 16, 8), "RS2m m=8 (200,255)");
	EXPECT_REJ(try_ldpc(0, 5, 16, 1, 3), "LDPC k=0"); EXPECT_REJ(try_ldpc(10, 0, 16, 1, 3), "LDPC r=0"); EXPECT_REJ(try_ldpc(10, 5, 0, 1, 3), "LDPC len=0");
	EXPECT_REJ(try_ldpc(10, 5, 16, 0, 3), "LDPC seed=0"); EXPECT_REJ(try_ldpc(10, 5, 16, 0x7FFFFFFF, 3), "LDPC seed=2^31-1"); EXPECT_REJ(try_ldpc(10, 5, 16, -1, 3), "LDPC seed=-1");
	EXPECT_REJ(try_ldpc(10, 5, 16, 1, 2), "LDPC N1=2"); EXPECT_REJ(try_ldpc(10, 5, 16, 1, 6), "LDPC N1>r");
	EXPECT_OK(try_ldpc(10, 5, 16, 1, 3), "LDPC ok"); EXPECT_OK(try_ldpc(10, 5, 16, 0x7FFFFFFE, 5), "LDPC seed max, N1=r"); EXPECT_OK(try_ldpc(1, 3, 1, 1, 3), "LDPC (1,4)");
	printf("RESULT %d expectations failed %s\n", bad, bad ? "BAD" : "GOOD");
	return bad != 0;
}
