/* D6: LDPC decoder with even N1 feeds itself a zero last repair symbol; it must not be leaked */
#include "common.h"
int main(void) {
	of_session_t *s; of_ldpc_parameters_t p; memset(&p, 0, sizeof p); p.nb_source_symbols = 100; p.nb_repair_symbols = 50; p.encoding_symbol_length = 64; p.prng_seed = 1; p.N1 = 4;
	of_create_codec_instance(&s, OF_CODEC_LDPC_STAIRCASE_STABLE, OF_DECODER, 0);
	int st = of_set_fec_parameters(s, (of_parameters_t*)&p); bool isnull = 0;
	of_get_control_parameter(s, OF_CRTL_LDPC_STAIRCASE_IS_LAST_SYMBOL_NULL, &isnull, sizeof isnull);
	of_release_codec_instance(s);
	printf("RESULT set_params=%d last_null=%d (leak shows as LeakSanitizer line)\n", st, isnull);
	return 0;
}
