/* D7: NULL output slot in of_build_repair_symbol (LDPC) must be replaced by a library allocation */
#include "common.h"
int main(void) {
	of_session_t *s; of_ldpc_parameters_t p; unsigned char src[10][32]; void *tab[15];
	memset(&p, 0, sizeof p); p.nb_source_symbols = 10; p.nb_repair_symbols = 5; p.encoding_symbol_length = 32; p.prng_seed = 1; p.N1 = 3;
	of_create_codec_instance(&s, OF_CODEC_LDPC_STAIRCASE_STABLE, OF_ENCODER, 0);
	if (of_set_fec_parameters(s, (of_parameters_t*)&p) != OF_STATUS_OK) return 3;
	for (int i = 0; i < 10; i++) { fill(src[i], 32, i); tab[i] = src[i]; }
	for (int i = 10; i < 15; i++) tab[i] = NULL;
	of_status_t st = 0;
	for (int i = 10; i < 15; i++) st |= of_build_repair_symbol(s, tab, i);
	printf("RESULT build status=%d slot=%p %s\n", st, tab[10], (st == 0 && tab[10]) ? "GOOD" : "BAD");
	for (int i = 10; i < 15; i++) free(tab[i]);
	of_release_codec_instance(s);
	return 0;
}
