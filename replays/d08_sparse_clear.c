/* D8: of_mod2sparse_clear leaves next_free pointing into the freed blocks; the next insert uses freed memory */
#include "common.h"
#include "linear_binary_codes_utils/of_linear_binary_code.h"
int main(void) {
	of_mod2sparse *m = of_mod2sparse_allocate(4, 4);
	of_mod2sparse_insert(m, 0, 1); of_mod2sparse_insert(m, 2, 3);
	of_mod2sparse_clear(m);
	of_mod2sparse_insert(m, 0, 0);
	int ok = of_mod2sparse_find(m, 0, 0) != NULL && of_mod2sparse_find(m, 0, 1) == NULL;
	printf("RESULT after clear+insert: %s\n", ok ? "GOOD" : "BAD");
	of_mod2sparse_free(m); free(m);
	return !ok;
}
