/* D9: of_mod2dense_copyrows must copy the selected rows (it looped over columns while indexing rows) */
#include "common.h"
#include "linear_binary_codes_utils/of_linear_binary_code.h"
int main(void) {
	of_mod2dense *m = of_mod2dense_allocate(3, 40), *r = of_mod2dense_allocate(2, 40);
	UINT32 rows[2] = {2, 0};
	of_mod2dense_set(m, 0, 5, 1); of_mod2dense_set(m, 2, 39, 1); of_mod2dense_set(m, 1, 7, 1);
	of_mod2dense_copyrows(m, r, rows);
	int ok = of_mod2dense_get(r, 0, 39) == 1 && of_mod2dense_get(r, 1, 5) == 1 && of_mod2dense_get(r, 0, 5) == 0 && of_mod2dense_get(r, 1, 7) == 0;
	printf("RESULT copyrows {2,0}: %s\n", ok ? "GOOD" : "BAD");
	of_mod2dense_free(m); of_mod2dense_free(r);
	return !ok;
}
