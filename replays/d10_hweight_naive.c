/* D10: of_hweight32_naive must count all 32 bits */
#include "common.h"
#include "linear_binary_codes_utils/of_linear_binary_code.h"
int main(void) {
	int a = of_hweight32_naive(0xFFFFFFFFu), b = of_hweight32_naive(0xF0u), c = of_hweight32_naive(0x80000001u);
	printf("RESULT naive(0xFFFFFFFF)=%d naive(0xF0)=%d naive(0x80000001)=%d %s\n", a, b, c, (a == 32 && b == 4 && c == 2) ? "GOOD" : "BAD");
	return !(a == 32 && b == 4 && c == 2);
}
