/* C08 probe: sessions of every codec released at several points of their life must leave nothing behind (LeakSanitizer) */
#include "common.h"
static void run(int codec, int k, int r, int lose_src, int do_finish, int nsubmit) {
	enum { L = 32 };
	of_session_t *e, *d; unsigned char src[64][L]; void *tab[128] = {0};
	union { of_ldpc_parameters_t l; of_rs_2_m_parameters_t m; of_parameters_t g; } p; memset(&p, 0, sizeof p);
	p.g.nb_source_symbols = k; p.g.nb_repair_symbols = r; p.g.encoding_symbol_length = L;
	if (codec == 3) { p.l.prng_seed = 7; p.l.N1 = 3; } else if (codec == 2) p.m.m = 8;
	of_create_codec_instance(&e, codec, OF_ENCODER, 0); of_set_fec_parameters(e, &p.g);
	for (int i = 0; i < k; i++) { fill(src[i], L, i); tab[i] = src[i]; }
	for (int i = k; i < k + r; i++) { tab[i] = calloc(1, L); of_build_repair_symbol(e, tab, i); }
	of_release_codec_instance(e);
	of_create_codec_instance(&d, codec, OF_DECODER, 0); of_set_fec_parameters(d, &p.g);
	int sent = 0;
	for (int i = 0; i < k + r && sent < nsubmit; i++) if (i >= lose_src) { of_decode_with_new_symbol(d, tab[i], i); sent++; }
	int fin = -1; if (do_finish) fin = of_finish_decoding(d);
	void *out[64] = {0}; of_get_source_symbols_tab(d, out);
	int complete = of_is_decoding_complete(d);
	for (int i = 0; i < k; i++) if (out[i] && out[i] != tab[i]) free(out[i]);     /* decoded symbols belong to the application */
	of_release_codec_instance(d);
	for (int i = k; i < k + r; i++) free(tab[i]);
	printf("codec %d k=%d r=%d lost_first=%d finish=%d submitted=%d complete=%d\n", codec, k, r, lose_src, fin, sent, complete);
}
int main(int argc, char **argv) {
	int which = argc > 1 ? atoi(argv[1]) : 0;
	for (int codec = 1; codec <= 3; codec++) {
		run(codec, 20, 10, 0, 0, 0);        /* configured, nothing submitted */
		run(codec, 20, 10, 0, 0, 5);        /* mid-decoding */
		run(codec, 20, 10, 0, 1, 20);       /* all sources */
		run(codec, 20, 10, 6, 1, 100);      /* 6 sources lost, decode */
		run(codec, 20, 10, 12, 1, 100);     /* undecodable */
	}
	printf("RESULT done (leaks show as LeakSanitizer lines)\n");
	return 0;
}
