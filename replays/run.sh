#!/bin/sh
# Concrete replays of the defects the static rules reported (used to tell genuine defect from false alarm,
# and to confirm each fix).  Not a check: nothing in MANIFEST.json runs this.
#   replays/run.sh [repo-dir] [replay.c ...]
REPO=${1:-/repo}; [ $# -gt 0 ] && shift
W=$(mktemp -d /tmp/ofreplay.XXXXXX)
[ -n "$KEEP" ] || trap 'rm -rf "$W"' EXIT; [ -n "$KEEP" ] && echo "workdir $W"
HERE=$(cd $(dirname $0) && pwd)
SRCS=$(find $REPO/src -name '*.c' | grep -v ldpc_from_file)
(cd $W && clang -g -O1 -fsanitize=address,undefined -fno-omit-frame-pointer -DOPENFEC_LITTLE_ENDIAN -DNDEBUG $EXTRA_CFLAGS -w -c $SRCS -I$REPO/src 2>&1 | head -5)
[ $# -eq 0 ] && set -- $HERE/d*.c
for t in "$@"; do
  n=$(basename $t .c)
  clang -g -O1 -fsanitize=address,undefined -DOPENFEC_LITTLE_ENDIAN $EXTRA_CFLAGS -w -I$HERE -I$REPO/src/lib_common -I$REPO/src $t $W/*.o -lm -o $W/$n.exe 2>&1 | head -5
  ASAN_OPTIONS=detect_leaks=1 $W/$n.exe > $W/$n.out 2>&1; rc=$?
  echo "== $n rc=$rc"
  grep -E "^RESULT|^codec|^accepted|^rejected|^k=" $W/$n.out | head -${VERBOSE:-4} | cut -c1-200
  grep -E "ERROR: AddressSanitizer|ERROR: LeakSanitizer|SUMMARY|runtime error" $W/$n.out | head -2 | cut -c1-200
done
