#include <stdio.h>
#include <stdlib.h>
#include <string.h>
#include "of_openfec_api.h"
static void fill(unsigned char *p, unsigned n, unsigned seed) { for (unsigned i = 0; i < n; i++) p[i] = (unsigned char)(seed * 131 + i * 7 + 3); }
__attribute__((constructor)) static void unbuffer(void) { setvbuf(stdout, NULL, _IONBF, 0); }
