/* D4 (+D1, D11): 2D parity: encode, lose one source symbol, submit the rest with of_set_available_symbols, finish, compare */
#include "common.h"
int main(void) {
	int bad = 0;
	for (int k = 2; k <= 16; k++) for (int r = 2; r + k <= 24; r++) {
		of_session_t *e, *d; of_2d_parity_parameters_t p = {k, r, 16}; unsigned char src[16][16]; void *tab[24] = {0}, *rx[24] = {0}, *out[16] = {0};
		of_create_codec_instance(&e, OF_CODEC_2D_PARITY_MATRIX_STABLE, OF_ENCODER, 0);
		if (of_set_fec_parameters(e, (of_parameters_t*)&p) != OF_STATUS_OK) { of_release_codec_instance(e); continue; }
		for (int i = 0; i < k; i++) { fill(src[i], 16, i + k); tab[i] = src[i]; }
		int st = 0; for (int i = k; i < k + r; i++) { tab[i] = calloc(1, 16); st |= of_build_repair_symbol(e, tab, i); }
		for (int lost = 0; lost < k; lost++) {
			of_create_codec_instance(&d, OF_CODEC_2D_PARITY_MATRIX_STABLE, OF_DECODER, 0); of_set_fec_parameters(d, (of_parameters_t*)&p);
			for (int i = 0; i < k + r; i++) rx[i] = (i == lost) ? NULL : tab[i];
			int s1 = of_set_available_symbols(d, rx); int fin = of_is_decoding_complete(d) ? 0 : of_finish_decoding(d);
			memset(out, 0, sizeof out); of_get_source_symbols_tab(d, out);
			int ok = fin == 0 && of_is_decoding_complete(d) && out[lost] && !memcmp(out[lost], src[lost], 16);
			for (int i = 0; i < k; i++) if (i != lost && out[i] != tab[i]) ok = 0;
			if (!ok) { bad++; if (bad < 6) printf("\nk=%d r=%d lost=%d: set_avail=%d finish=%d complete=%d out=%p\n", k, r, lost, s1, fin, of_is_decoding_complete(d), out[lost]); }
			if (out[lost] && out[lost] != tab[lost]) free(out[lost]);
			of_release_codec_instance(d);
		}
		for (int i = k; i < k + r; i++) free(tab[i]);
		of_release_codec_instance(e);
	}
	printf("\nRESULT single-loss recoveries failing: %d %s\n", bad, bad ? "BAD" : "GOOD");
	return bad != 0;
}
