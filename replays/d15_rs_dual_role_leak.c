/* D15: RS GF(2^8) session opened as OF_ENCODER_AND_DECODER: of_build_repair_symbol creates the code descriptor rs_cb lazily and keeps it;
 * of_rs_finish_decoding then overwrites ofcb->rs_cb with a fresh descriptor without releasing the one already there. */
#include "common.h"
int main(void) {
	enum { K = 4, R = 4, L = 16 };
	of_session_t *s; of_rs_parameters_t p = {K, R, L};
	unsigned char buf[K + R][L]; void *tab[K + R];
	for (int i = 0; i < K + R; i++) { fill(buf[i], L, i); tab[i] = buf[i]; }
	of_create_codec_instance(&s, OF_CODEC_REED_SOLOMON_GF_2_8_STABLE, OF_ENCODER_AND_DECODER, 0);
	int st = of_set_fec_parameters(s, (of_parameters_t*)&p);
	for (int i = K; i < K + R; i++) st |= of_build_repair_symbol(s, tab, i);
	/* now decode on the same session from symbols 1, 2, 4, 5 */
	int got[] = {1, 2, 4, 5};
	for (int j = 0; j < 4; j++) st |= of_decode_with_new_symbol(s, tab[got[j]], got[j]);
	int fin = of_finish_decoding(s);
	int done = of_is_decoding_complete(s);
	void *src[K] = {0}; of_get_source_symbols_tab(s, src);
	int same = src[0] && !memcmp(src[0], buf[0], L) && src[3] && !memcmp(src[3], buf[3], L);
	for (int i = 0; i < K; i++) if (src[i] && src[i] != tab[i]) free(src[i]);
	of_release_codec_instance(s);
	printf("\nRESULT st=%d finish=%d complete=%d decoded-right=%d (leak shows as LeakSanitizer line)\n", st, fin, done, same);
	return 0;
}
