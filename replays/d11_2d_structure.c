/* D11: for every accepted (k, r) the 2D parity matrix must be the d x l product code: every source column in exactly one
 * row check and one column check, every check with its own repair column */
#include "common.h"
#include "linear_binary_codes_utils/of_linear_binary_code.h"
int main(void) {
	int bad = 0, acc = 0;
	for (int k = 1; k <= 16; k++) for (int r = 1; k + r <= 24; r++) {
		of_mod2sparse *m = of_create_pchk_matrix(r, k + r, Evenboth, 0, 0, false, Type2DMATRIX, 0);
		if (!m) continue;
		acc++;
		int ok = 1;
		for (int c = r; c < k + r; c++) { int n = 0; for (of_mod2entry *e = of_mod2sparse_first_in_col(m, c); !of_mod2sparse_at_end(e); e = of_mod2sparse_next_in_col(e)) n++; if (n != 2) ok = 0; }
		for (int c = 0; c < r; c++) { int n = 0; for (of_mod2entry *e = of_mod2sparse_first_in_col(m, c); !of_mod2sparse_at_end(e); e = of_mod2sparse_next_in_col(e)) n++; if (n != 1) ok = 0; }
		/* two source symbols never share both checks */
		for (int a = r; a < k + r && ok; a++) for (int b = a + 1; b < k + r; b++) {
			int ra[2], rb[2], i = 0; for (of_mod2entry *e = of_mod2sparse_first_in_col(m, a); !of_mod2sparse_at_end(e); e = of_mod2sparse_next_in_col(e)) ra[i++ & 1] = e->row;
			i = 0; for (of_mod2entry *e = of_mod2sparse_first_in_col(m, b); !of_mod2sparse_at_end(e); e = of_mod2sparse_next_in_col(e)) rb[i++ & 1] = e->row;
			if (ra[0] == rb[0] && ra[1] == rb[1]) ok = 0; }
		if (!ok) { bad++; printf("\nk=%d r=%d: not a product code\n", k, r); }
		of_mod2sparse_free(m); free(m);
	}
	printf("\nRESULT accepted=%d structurally wrong=%d %s\n", acc, bad, bad ? "BAD" : "GOOD");
	return bad != 0;
}
