/* D12: decoded-source callback returning NULL must make the library allocate (RS-2^8 and RS-2^m) */
#include "common.h"
static int calls;
static void *cb(void *ctx, UINT32 size, UINT32 esi) { calls++; return NULL; }
static int run(int codec) {
	of_session_t *e, *d; unsigned char src[4][16]; void *tab[6]; int bad = 0;
	of_rs_2_m_parameters_t p; memset(&p, 0, sizeof p); p.nb_source_symbols = 4; p.nb_repair_symbols = 2; p.encoding_symbol_length = 16; p.m = 8;
	of_create_codec_instance(&e, codec, OF_ENCODER, 0); of_set_fec_parameters(e, (of_parameters_t*)&p);
	for (int i = 0; i < 4; i++) { fill(src[i], 16, i); tab[i] = src[i]; }
	tab[4] = calloc(1, 16); tab[5] = calloc(1, 16);
	of_build_repair_symbol(e, tab, 4); of_build_repair_symbol(e, tab, 5);
	of_create_codec_instance(&d, codec, OF_DECODER, 0); of_set_fec_parameters(d, (of_parameters_t*)&p);
	of_set_callback_functions(d, cb, NULL, NULL);
	of_status_t st = 0; int order[4] = {1, 2, 4, 5};
	for (int i = 0; i < 4; i++) st |= of_decode_with_new_symbol(d, tab[order[i]], order[i]);
	of_status_t fin = of_finish_decoding(d);
	void *out[4] = {0}; of_get_source_symbols_tab(d, out);
	int complete = of_is_decoding_complete(d);
	if (st != 0 || fin != 0 || !complete || !out[0] || !out[3] || memcmp(out[0], src[0], 16) || memcmp(out[3], src[3], 16)) bad = 1;
	printf("codec %d: decode=%d finish=%d complete=%d out0=%p calls=%d\n", codec, st, fin, complete, out[0], calls);
	if (out[0] && out[0] != src[0]) free(out[0]); if (out[3] && out[3] != src[3]) free(out[3]);
	free(tab[4]); free(tab[5]); of_release_codec_instance(e); of_release_codec_instance(d);
	return bad;
}
int main(void) { int b = run(OF_CODEC_REED_SOLOMON_GF_2_8_STABLE) | run(OF_CODEC_REED_SOLOMON_GF_2_M_STABLE); printf("RESULT %s\n", b ? "BAD" : "GOOD"); return b; }
