/* D1: any of_decode_with_new_symbol on the 2D-parity codec (layout mismatch with of_linear_binary_code_cb_t) */
#include "common.h"
int main(void) {
	of_session_t *s; of_2d_parity_parameters_t p = {4, 4, 16};
	unsigned char buf[8][16];
	if (of_create_codec_instance(&s, OF_CODEC_2D_PARITY_MATRIX_STABLE, OF_DECODER, 0) != OF_STATUS_OK) return 2;
	if (of_set_fec_parameters(s, (of_parameters_t*)&p) != OF_STATUS_OK) { printf("RESULT params rejected\n"); return 3; }
	fill(buf[0], 16, 0);
	of_status_t st = of_decode_with_new_symbol(s, buf[0], 0);
	printf("RESULT decode_with_new_symbol status=%d\n", st);
	of_release_codec_instance(s);
	return 0;
}
