/* D13: after of_set_available_symbols with all k source symbols, of_is_decoding_complete must be true (C10) */
#include "common.h"
int main(void) {
	int bad = 0;
	for (int codec = 1; codec <= 2; codec++) {
		of_session_t *d; unsigned char src[4][16]; void *tab[6] = {0};
		of_rs_2_m_parameters_t p; memset(&p, 0, sizeof p); p.nb_source_symbols = 4; p.nb_repair_symbols = 2; p.encoding_symbol_length = 16; p.m = 8;
		of_create_codec_instance(&d, codec, OF_DECODER, 0); of_set_fec_parameters(d, (of_parameters_t*)&p);
		for (int i = 0; i < 4; i++) { fill(src[i], 16, i); tab[i] = src[i]; }
		of_set_available_symbols(d, tab);
		int c = of_is_decoding_complete(d);
		printf("codec %d: all k sources given through set_available_symbols: complete=%d\n", codec, c);
		if (!c) bad = 1;
		of_release_codec_instance(d);
	}
	printf("RESULT %s\n", bad ? "BAD" : "GOOD");
	return bad;
}
