/* D14 (OF_DEBUG configuration only): the 2D-parity codec allocates stats_symbols in set_fec_parameters and never frees it.
 * build: replays/run.sh with EXTRA_CFLAGS=-DOF_DEBUG */
#include "common.h"
int main(void) {
	of_session_t *s; of_2d_parity_parameters_t p = {4, 4, 16};
	of_create_codec_instance(&s, OF_CODEC_2D_PARITY_MATRIX_STABLE, OF_DECODER, 0);
	int st = of_set_fec_parameters(s, (of_parameters_t*)&p);
	of_release_codec_instance(s);
	printf("\nRESULT set_params=%d (leak shows as LeakSanitizer line)\n", st);
	return 0;
}
