"""Constant-data rules: R-TABLES, R-POLY, R-HW8, R-INIT-BEFORE-USE, R-TABLE-WRITERS."""
from .ir import Terms, strip_casts, const_of, atoms_at, has_atom


# ------------------------------------------------------------- reference field
def gf_mul(a, b, m, poly):
    """Product in GF(2)[x]/poly (poly includes the x^m term)."""
    r = 0
    while b:
        if b & 1:
            r ^= a
        b >>= 1
        a <<= 1
        if a & (1 << m):
            a ^= poly
    return r


class Field(object):
    def __init__(self, m, poly):
        self.m = m
        self.poly = poly
        self.q = 1 << m
        self.exp = []
        x = 1
        for i in range(self.q):          # exp[i] = x^i, i = 0 .. 2^m-1 (the last one wraps to 1)
            self.exp.append(x)
            x = gf_mul(x, 2, m, poly)
        self.log = [self.q - 1] * self.q  # log(0): sentinel 2^m-1 (the code's convention)
        for i in range(self.q - 1):
            self.log[self.exp[i]] = i
        self.inv = [0] * self.q           # inv(0) = 0 (the code's convention)
        for a in range(1, self.q):
            for b in range(1, self.q):
                if gf_mul(a, b, m, poly) == 1:
                    self.inv[a] = b
                    break
        self.mul = [[gf_mul(a, b, m, poly) for b in range(self.q)] for a in range(self.q)]

    def primitive(self):
        return len(set(self.exp[:self.q - 1])) == self.q - 1


GF16 = Field(4, 0b10011)          # x^4 + x + 1
GF256 = Field(8, 0b100011101)     # x^8 + x^4 + x^3 + x^2 + 1


def flat_ints(init):
    """Integer contents of a (possibly nested) constant initialiser, row-major; None if not integer data."""
    k = init['k']
    if k == 'data':
        return list(init.get('elts', [])) if 'elts' in init else None
    if k == 'zero':
        return None if 'bytes' not in init else ['Z', init['bytes']]
    if k == 'agg':
        out = []
        for e in init['elts']:
            f = flat_ints(e)
            if f is None:
                return None
            if f and f[0] == 'Z':
                return None
            out.extend(f)
        return out
    if k == 'c':
        return [init['v']]
    return None


def rows(init):
    if init['k'] != 'agg':
        return None
    out = []
    for e in init['elts']:
        if e['k'] == 'zero':
            out.append([0] * e['bytes'])     # an all-zero row of i8 (row 0 of a multiplication table)
            continue
        f = flat_ints(e)
        if f is None:
            return None
        out.append([x & 0xff for x in f])
    return out


TABLES = {
    # name: (field, kind)
    'of_gf_2_4_log': (GF16, 'log'), 'of_gf_2_4_exp': (GF16, 'exp'), 'of_gf_2_4_inv': (GF16, 'inv'),
    'of_gf_2_4_mul_table': (GF16, 'mul'), 'of_gf_2_4_opt_mul_table': (GF16, 'opt'),
    'of_gf_2_8_log': (GF256, 'log'), 'of_gf_2_8_exp': (GF256, 'exp'), 'of_gf_2_8_inv': (GF256, 'inv'),
    'of_gf_2_8_mul_table': (GF256, 'mul'),
}


def expected(field, kind):
    if kind == 'log':
        return field.log
    if kind == 'exp':
        return field.exp
    if kind == 'inv':
        return field.inv
    if kind == 'mul':
        return field.mul
    if kind == 'opt':
        # packed two-nibble table: opt[c][hi<<4|lo] = mul[c][hi]<<4 | mul[c][lo]
        return [[(field.mul[c][b >> 4] << 4) | field.mul[c][b & 15] for b in range(256)]
                for c in range(field.q)]


def r_tables(ctx, prog):
    what = ('every entry of every compiled copy of the precomputed GF(2^4)/GF(2^8) tables equals arithmetic in '
            'GF(2)[x]/(x^4+x+1) resp. GF(2)[x]/(x^8+x^4+x^3+x^2+1) with generator x (independent reference)')
    ctx.rule('R-TABLES', what, floor=1)
    ctx.need(GF16.primitive() and GF256.primitive(), 'R-TABLES', 'reference field self-check failed')
    seen_names = set()
    for u in prog.units + prog.probes:
        for name, g in sorted(u.globals.items()):
            if name not in TABLES or g['decl']:
                continue
            field, kind = TABLES[name]
            exp = expected(field, kind)
            where = (name, '%s:%s (copy compiled into %s)' % ((g.get('file') or '?').split('/src/')[-1], g.get('line'), u.name))
            init = g.get('init')
            if init is None:
                ctx.fail('R-TABLES', where, name + ':noinit', 'table has no initialiser')
                continue
            if not g['const']:
                ctx.fail('R-TABLES', where, name + ':writable',
                         'precomputed table %s is not const: its contents are no longer fixed data' % name)
                continue
            if kind in ('mul', 'opt'):
                got = rows(init)
                if got is None:
                    ctx.fail('R-TABLES', where, name + ':shape', 'initialiser is not a full 2-D integer table')
                    continue
                bad = None
                if len(got) < len(exp) or any(len(r) < len(e) for r, e in zip(got, exp)):
                    bad = 'dimensions %dx%d, expected %dx%d' % (len(got), len(got[0]) if got else 0,
                                                                 len(exp), len(exp[0]))
                else:
                    for a in range(len(exp)):
                        for b in range(len(exp[a])):
                            if got[a][b] != exp[a][b]:
                                bad = 'entry [%d][%d] = %d, field arithmetic gives %d' % (a, b, got[a][b], exp[a][b])
                                break
                        if bad:
                            break
                n = len(exp) * len(exp[0])
            else:
                got = flat_ints(init)
                if got is None or (got and got[0] == 'Z'):
                    ctx.fail('R-TABLES', where, name + ':shape', 'initialiser is not integer data')
                    continue
                if '[' in g['ty'] and g['ty'].rstrip(']').endswith('i8'):
                    got = [x & 0xff for x in got]
                bad = None
                if len(got) < len(exp):
                    bad = 'length %d, the field has %d elements' % (len(got), len(exp))
                else:
                    for i in range(len(exp)):
                        if got[i] != exp[i]:
                            bad = 'entry [%d] = %d, field arithmetic gives %d' % (i, got[i], exp[i])
                            break
                n = len(exp)
            if bad:
                ctx.fail('R-TABLES', where, name + ':entries', '%s (%s of GF(2^%d)): %s' % (name, kind, field.m, bad))
            else:
                if u in prog.units or name not in seen_names:
                    seen_names.add(name)
                ctx.ok('R-TABLES', where, name + ':entries', '%d entries equal the reference %s table of GF(2^%d)'
                       % (n, kind, field.m))
                ctx.bulk('R-TABLES', n - 1)
    return seen_names


def r_hw8(ctx, prog):
    ctx.rule('R-HW8', 'of_hw8table[i] = popcount(i) for all 256 byte values', floor=1)
    g = prog.global_def('of_hw8table')
    ctx.need(g is not None, 'R-HW8', 'global of_hw8table not found')
    got = flat_ints(g['init']) if g.get('init') else None
    where = ('of_hw8table', '%s:%s' % ((g.get('file') or '?').split('/repo/')[-1], g.get('line')))
    if got is None or len(got) != 256 or (got and got[0] == 'Z'):
        ctx.fail('R-HW8', where, 'of_hw8table:shape', 'not a 256-entry integer table')
        return
    for i in range(256):
        if (got[i] & 0xff) != bin(i).count('1'):
            ctx.fail('R-HW8', where, 'of_hw8table:entries',
                     'of_hw8table[%d] = %d, popcount is %d' % (i, got[i] & 0xff, bin(i).count('1')))
            return
    ctx.ok('R-HW8', where, 'of_hw8table:entries', '256 entries equal popcount')
    ctx.bulk('R-HW8', 255)
    # the table is only ever read
    for f in prog.all_functions:
        for i in f.all_insts():
            if i.op == 'store':
                t = Terms(f).term(i.ops[1])
                if _mentions_global(t, 'of_hw8table'):
                    ctx.fail('R-HW8', i, 'of_hw8table:store', 'store into of_hw8table')


def _mentions_global(t, g):
    """Is the *address* term t inside global g (loads are values, not addresses: not descended)."""
    if not isinstance(t, tuple):
        return False
    if t[0] in ('global', 'goff') and t[1] == g:
        return True
    if t[0] in ('load', 'load@', 'call', 'icall'):
        return False
    return any(_mentions_global(x, g) for x in t[1:] if isinstance(x, tuple))


RS8_UNIT = 'of_reed-solomon_gf_2_8.c'
RS8_TABLES = ('of_gf_mul_table', 'of_rs_gf_exp', 'of_rs_gf_log', 'of_rs_inverse')


def r_poly(ctx, prog):
    """The generated RS-2^8 tables are built from the primitive polynomial 1+x^2+x^3+x^4+x^8."""
    ctx.rule('R-POLY', 'of_generate_gf reads the polynomial string of_rs_allPp[8] and that entry is "101110001" '
             '(x^8+x^4+x^3+x^2+1, low degree first); the table of strings is never written', floor=1)
    f = prog.need_fn('of_generate_gf', 'R-POLY', RS8_UNIT)
    u = f.unit
    g = u.globals.get('of_rs_allPp')
    ctx.need(g is not None and g.get('init'), 'R-POLY', 'of_rs_allPp not found')
    # loads from of_rs_allPp in of_generate_gf: constant index
    idxs = []
    for i in f.all_insts():
        if i.op == 'load':
            name, off = i.ops[0].strip_global()
            if name == 'of_rs_allPp':
                idxs.append((i, off // 8))
            else:
                v = strip_casts(i.ops[0])
                if v.k == 'i' and v.inst.op == 'getelementptr' and v.inst.ops[0].k == 'g' and \
                        v.inst.ops[0].name == 'of_rs_allPp':
                    c = [const_of(s['idxv']) for s in v.inst.path if 'idxv' in s]
                    if None in c:
                        ctx.fail('R-POLY', i, 'allPp:index', 'polynomial selected by a non-constant index')
                    else:
                        idxs.append((i, c[-1]))
    ctx.need(len(idxs) >= 1, 'R-POLY', 'of_generate_gf no longer reads of_rs_allPp')
    elts = g['init']['elts']
    for i, ix in idxs:
        if ix != 8:
            ctx.fail('R-POLY', i, 'allPp:index', 'of_generate_gf selects polynomial entry %d, the GF(2^8) codec needs entry 8' % ix)
            continue
        e = elts[ix] if ix < len(elts) else None
        s = None
        if e is not None and e['k'] == 'ce':
            gname = e['ops'][0].get('name')
            sg = u.globals.get(gname)
            if sg and sg.get('init'):
                s = sg['init'].get('str')
        if s != '101110001':
            ctx.fail('R-POLY', i, 'allPp:string', 'of_rs_allPp[8] is %r, the documented field needs "101110001"' % (s,))
        else:
            ctx.ok('R-POLY', i, 'allPp:string', 'of_rs_allPp[8] = "101110001"')
    # nobody writes the pointer table
    n = 0
    for fn in u.functions.values():
        tt = Terms(fn)
        for i in fn.all_insts():
            if i.op == 'store' and _mentions_global(tt.term(i.ops[1]), 'of_rs_allPp'):
                ctx.fail('R-POLY', i, 'allPp:store', 'store into of_rs_allPp')
                n += 1
    if n == 0:
        ctx.ok('R-POLY', f, 'allPp:readonly', 'no store into of_rs_allPp in the unit (static linkage)')


def _refs_globals(fn, names):
    """Instructions of fn that mention one of the globals (directly or through a constant expression)."""
    out = []

    def mention(v):
        if v.k == 'g' and v.name in names:
            return v.name
        if v.k == 'ce':
            for o in v.ops:
                r = mention(o)
                if r:
                    return r
        return None
    for i in fn.all_insts():
        for o in i.ops:
            r = mention(o)
            if r:
                out.append((i, r))
                break
    return out


def r_table_writers(ctx, prog):
    """The run-time generated tables are written only by the two generator routines, which take no
    arguments; every other function only loads from them."""
    ctx.rule('R-TABLE-WRITERS', 'stores into of_rs_gf_exp/log/inverse/of_gf_mul_table and of_rs_initialized occur only in '
             'of_generate_gf / of_rs_init_mul_table / of_rs_init, which take no parameters and read no session data',
             floor=1)
    u = None
    for x in prog.units:
        if x.name == RS8_UNIT:
            u = x
    ctx.need(u is not None, 'R-TABLE-WRITERS', 'unit %s missing' % RS8_UNIT)
    for t in RS8_TABLES + ('of_rs_initialized',):
        ctx.need(t in u.globals, 'R-TABLE-WRITERS', 'global %s missing' % t)
        ctx.need(u.globals[t]['internal'], 'R-TABLE-WRITERS',
                 'global %s is no longer static: writers outside the unit cannot be excluded by this rule' % t)
    allowed = {'of_generate_gf': RS8_TABLES, 'of_rs_init_mul_table': ('of_gf_mul_table',),
               'of_rs_init': ('of_rs_initialized',)}
    for fn in u.functions.values():
        tt = Terms(fn, forward=False)
        for i in fn.all_insts():
            # any escape of a table address other than load/store/gep is a potential writer
            if i.op == 'store':
                a = tt.term(i.ops[1])
                hit = [g for g in RS8_TABLES + ('of_rs_initialized',) if _mentions_global(a, g)]
                # a store *of* the address
                hit_val = [g for g in RS8_TABLES if _mentions_global(tt.term(i.ops[0]), g)]
                for g in hit:
                    if g in allowed.get(fn.name, ()):
                        ctx.ok('R-TABLE-WRITERS', i, 'store:%s' % g)
                    else:
                        ctx.fail('R-TABLE-WRITERS', i, 'store:%s' % g,
                                 '%s writes %s; only the generator routines may' % (fn.name, g))
                for g in hit_val:
                    ctx.fail('R-TABLE-WRITERS', i, 'escape:%s' % g, 'address of %s stored to memory' % g)
            elif i.op == 'call':
                for a in i.args:
                    t = tt.term(a)
                    for g in RS8_TABLES:
                        if _mentions_global(t, g):
                            callee = prog.callee_fn(i)
                            if g in allowed.get(fn.name, ()) and i.callee in ('memset', 'bzero', 'memcpy', 'bcopy') and \
                                    a is i.args[1 if i.callee == 'bcopy' else 0]:
                                # the generator itself filling its own table through libc: an allowed writer (what it writes is
                                # R-TABLE-COVERAGE's business)
                                ctx.ok('R-TABLE-WRITERS', i, 'libc-fill:%s' % g)
                                continue
                            # passing a table row to a reader (e.g. addmul via __gf_mulc_) is not in the code today
                            ctx.fail('R-TABLE-WRITERS', i, 'arg:%s' % g,
                                     'address inside %s passed to %s: cannot exclude a write' % (g, i.callee))
    for name in ('of_generate_gf', 'of_rs_init_mul_table', 'of_rs_init'):
        f = u.functions.get(name)
        ctx.need(f is not None, 'R-TABLE-WRITERS', 'generator %s missing' % name)
        if f.params:
            ctx.fail('R-TABLE-WRITERS', f, 'params:' + name, 'table generator takes parameters: contents may depend on the caller')
        else:
            ctx.ok('R-TABLE-WRITERS', f, 'params:' + name, 'no parameters')
        # reads only constants and the tables themselves
        for i in f.all_insts():
            if i.op == 'load':
                t = Terms(f, forward=False).term(i.ops[0])
                g = _first_global(t)
                if g is None or not (g in RS8_TABLES or g == 'of_rs_allPp' or g.startswith('.str') or g == 'of_rs_initialized'
                                     or g in ('stderr', 'stdout')):
                    # a load through the polynomial string pointer is a load from constant data
                    if _through_load_of(t, 'of_rs_allPp'):
                        continue
                    if g == 'of_verbosity':
                        # trace level (OF_DEBUG build): allowed when it only controls print regions (R-VERBOSITY)
                        from .ir import verbosity_regions_pure
                        okv, badv, nv = verbosity_regions_pure(f)
                        if okv:
                            continue
                    ctx.fail('R-TABLE-WRITERS', i, 'read:' + name, 'table generator reads %s' % (g or 'non-global memory'))
            if i.op == 'call' and i.callee in ('memset', 'bzero', 'memcpy', 'bcopy') and \
                    any(_mentions_global(Terms(f, forward=False).term(i.args[1 if i.callee == 'bcopy' else 0]), g2)
                        for g2 in allowed.get(name, ())):
                continue        # the generator filling its own table through libc (contents: R-TABLE-COVERAGE)
            if i.op == 'call' and i.callee not in ('of_generate_gf', 'of_rs_init_mul_table', 'of_modnn', 'fprintf',
                                                   'printf', 'fflush'):
                ctx.fail('R-TABLE-WRITERS', i, 'call:' + name, 'table generator calls %s' % i.callee)


def r_accum_init(ctx, prog):
    """A generator must not build an entry on top of whatever the table held before: a read-modify-write of a table element
    (`T[c] ^= x`) has to be dominated by a plain store to the same element in the same run.  Otherwise the tables are right only
    while the static storage is still zero, i.e. on the first call of the (exported) of_rs_init and wrong on any later one."""
    R = 'R-ACCUM-INIT'
    ctx.rule(R, 'in the table generators every read-modify-write of a table element is dominated by a plain store to that element '
             '(the generated contents do not depend on the previous contents)', floor=1)
    u = [x for x in prog.units if x.name == RS8_UNIT]
    ctx.need(u, R, 'unit missing')
    u = u[0]
    n = 0
    for name in ('of_generate_gf', 'of_rs_init_mul_table'):
        f = u.functions.get(name)
        ctx.need(f is not None, R, 'generator %s missing' % name)
        tt = Terms(f, forward=False)
        stores = [i for i in f.all_insts() if i.op == 'store']
        for i in stores:
            a = tt.term(i.ops[1])
            if not any(_mentions_global(a, g) for g in RS8_TABLES):
                continue
            v = tt.term(i.ops[0])
            if not _contains(v, ('load', a)):
                n += 1
                continue
            # self-accumulation
            init = [j for j in stores if j is not i and tt.term(j.ops[1]) == a and not _contains(tt.term(j.ops[0]), ('load', a))
                    and f.dominates(j, i)]
            ctx.instance(R, bool(init), i, 'accumulate:%s' % name,
                         '%s accumulates into a table element that this run has not set first: the result depends on the previous '
                         'contents (right only on the first of_rs_init call)' % name)
    ctx.need(n >= 4, R, 'generator stores not recognised')


def _contains(t, sub):
    if t == sub:
        return True
    if not isinstance(t, tuple):
        return False
    return any(_contains(x, sub) for x in t[1:] if isinstance(x, tuple))


def _first_global(t):
    if not isinstance(t, tuple):
        return None
    if t[0] in ('global', 'goff'):
        return t[1]
    for x in t[1:]:
        g = _first_global(x)
        if g:
            return g
    return None


def _through_load_of(t, g):
    if not isinstance(t, tuple):
        return False
    if t[0] in ('load', 'load@') and _mentions_global(t[1], g):
        return True
    return any(_through_load_of(x, g) for x in t[1:] if isinstance(x, tuple))


def r_init_before_use(ctx, prog):
    """Every reader of the generated tables runs only after of_rs_init.

    (1) of_rs_init calls both generators and then stores 1 to of_rs_initialized.
    (2) In of_rs_new every table read and every call of a table reader is dominated by the join of
        `if (of_rs_initialized == 0) of_rs_init()`.
    (3) Every other reader is reachable from the API only through functions that receive a
        `struct fec_parms *` code descriptor; every value stored into the session's descriptor field is
        the result of of_rs_new (or NULL), and the entry points reject a NULL descriptor or are only
        called with the loaded field.
    """
    R = 'R-INIT-BEFORE-USE'
    ctx.rule(R, 'generated RS-2^8 tables are initialised before any reader can run (init flag discipline in of_rs_new; '
             'encode/decode only take descriptors made by of_rs_new)', floor=1)
    u = [x for x in prog.units if x.name == RS8_UNIT]
    ctx.need(u, R, 'unit missing')
    u = u[0]
    init = u.functions.get('of_rs_init')
    new = u.functions.get('of_rs_new')
    ctx.need(init is not None and new is not None, R, 'of_rs_init / of_rs_new missing')
    # (1)
    calls = [c.callee for c in init.calls()]
    st = [i for i in init.all_insts() if i.op == 'store' and i.ops[1].k == 'g' and i.ops[1].name == 'of_rs_initialized']
    ok1 = 'of_generate_gf' in calls and 'of_rs_init_mul_table' in calls and len(st) == 1 and const_of(st[0].ops[0]) == 1
    if ok1:
        gen = [c for c in init.calls() if c.callee in ('of_generate_gf', 'of_rs_init_mul_table')]
        ok1 = all(init.dominates(c, st[0]) for c in gen) and \
            init.dominates([c for c in gen if c.callee == 'of_generate_gf'][0],
                           [c for c in gen if c.callee == 'of_rs_init_mul_table'][0])
    ctx.instance(R, ok1, init, 'init:order', 'of_rs_init must run of_generate_gf, then of_rs_init_mul_table, then set the flag')
    # readers
    readers = set()
    for fn in u.functions.values():
        if fn.name in ('of_generate_gf', 'of_rs_init_mul_table', 'of_rs_init'):
            continue
        if _refs_globals(fn, set(RS8_TABLES)):
            readers.add(fn.name)
    # closure: functions (in this unit) that call a reader
    changed = True
    reach = set(readers)
    while changed:
        changed = False
        for fn in u.functions.values():
            if fn.name in reach or fn.name in ('of_rs_init',):
                continue
            if any(c.callee in reach for c in fn.calls()):
                reach.add(fn.name)
                changed = True
    # (2) in of_rs_new
    tt = Terms(new)
    ic = [c for c in new.calls('of_rs_init')]
    if len(ic) != 1:
        ctx.fail(R, new, 'new:initcall', 'of_rs_new must call of_rs_init exactly once (found %d)' % len(ic))
        return
    ic = ic[0]
    # the call is on the "flag == 0" edge
    atoms = atoms_at(new, tt, ic.block)
    flag = ('load', ('global', 'of_rs_initialized'))
    g_ok = has_atom(atoms, 'eq', flag, ('const', 0))
    ctx.instance(R, g_ok, ic, 'new:initguard', 'of_rs_init() must be called when of_rs_initialized == 0')
    # join point: the immediate post-dominator of the branch block
    br = None
    for b, s, lab in __import__('ofverif.ir', fromlist=['guards_at']).guards_at(new, ic.block):
        if lab[0] == 'br':
            t = tt.term(lab[1])
            if 'of_rs_initialized' in repr(t):
                br = b
    ctx.need(br is not None, R, 'cannot find the initialised-flag test in of_rs_new')
    join = br.ipdom
    ctx.need(join not in (None, False), R, 'no join after the flag test')
    uses = [i for i, g in _refs_globals(new, set(RS8_TABLES))] + [c for c in new.calls() if c.callee in reach]
    for i in uses:
        ok = new.bdom(join, i.block)
        ctx.instance(R, ok, i, 'new:use-after-init:%s' % (i.callee or i.op),
                     'table use in of_rs_new not dominated by the init-flag test')
    # (3) descriptor discipline
    entry = [f for f in reach if not u.functions[f].internal and f not in ('of_rs_new',)]
    # every external function that reaches a reader, other than of_rs_new: check callers pass the rs field
    for name in sorted(entry):
        fn = u.functions[name]
        callers = prog.callers(name)
        for c in callers:
            if c.fn.unit is u and c.fn.name in reach:
                # internal chaining (e.g. invert_vdm called from of_rs_new) handled by (2) if caller is of_rs_new
                if c.fn.name == 'of_rs_new':
                    continue
            ct = Terms(c.fn)
            a0 = ct.term(c.args[0]) if c.args else None
            ok = a0 is not None and a0[0] in ('load', 'load@') and a0[1][0] == 'field' and a0[1][2] == 'rs_cb'
            if c.fn.unit is u:
                ok = ok or (a0 is not None and a0[0] == 'param')
            if not ok and a0 is not None and a0[0] == 'call' and a0[1] == 'of_rs_new':
                ok = True
            if not ok and a0 is not None and a0[0] in ('load', 'load@') and a0[1][0] in ('global', 'goff'):
                # a descriptor kept in a (static) variable: every store into that variable must be an of_rs_new() result or NULL
                gname = a0[1][1]
                sts = []
                for fn2 in prog.all_functions:
                    t3 = Terms(fn2, forward=False)
                    for i2 in fn2.all_insts():
                        if i2.op == 'store' and t3.term(i2.ops[1]) in (('global', gname), ('goff', gname, 0)):
                            sts.append(i2)
                ok = bool(sts) and all(strip_casts(i2.ops[0]).k == 'null' or const_of(i2.ops[0]) == 0 or
                                       (strip_casts(i2.ops[0]).k == 'i' and strip_casts(i2.ops[0]).inst.op == 'call' and
                                        strip_casts(i2.ops[0]).inst.callee == 'of_rs_new') for i2 in sts)
            ctx.instance(R, ok, c, 'descr:%s' % name,
                         '%s reaches the GF tables; its code descriptor argument must be the session\'s rs_cb field '
                         '(only of_rs_new produces those), got %s' % (name, __import__('ofverif.ir', fromlist=['show']).show(a0) if a0 else None))
    # stores into rs_cb
    n = 0
    for fn in prog.all_functions:
        t2 = Terms(fn, forward=False)
        for i in fn.all_insts():
            if i.op == 'store':
                a = t2.term(i.ops[1])
                if a[0] == 'field' and a[2] == 'rs_cb':
                    v = strip_casts(i.ops[0])
                    ok = (v.k == 'null') or (v.k == 'i' and v.inst.op == 'call' and v.inst.callee == 'of_rs_new')
                    ctx.instance(R, ok, i, 'rs_cb:store', 'the RS-2^8 descriptor field must only receive of_rs_new() results or NULL')
                    n += 1
    ctx.need(n >= 1, R, 'no store into the rs_cb descriptor field found')


# ------------------------------------------------------------------ R-TABLE-COVERAGE
def r_table_coverage(ctx, prog):
    """Every entry of a generated table is written by the generator: the index ranges of its stores (constants, loop induction
    variables with constant bounds, induction variable plus constant) cover the whole array.  Tables written through
    data-dependent indices (the logarithm table, a permutation of the exponent table's values) are not judged."""
    import re
    from .ir import loop_range
    R = 'R-TABLE-COVERAGE'
    ctx.rule(R, 'the stores of the table generators cover every entry of the exponent, inverse and multiplication tables '
             '(union of the constant / induction-variable index ranges = whole array)', floor=1)
    u = [x for x in prog.units if x.name == RS8_UNIT]
    ctx.need(u, R, 'unit missing')
    u = u[0]

    def dims(ty):
        return [int(x) for x in re.findall(r'\[(\d+) x', ty)]

    def idx_range(f, tt, t):
        """[lo, hi) of an index term, or None when it is not constant / affine in an induction variable with constant bounds"""
        if t[0] == 'const':
            return (t[1], t[1] + 1)
        off = 0
        if t[0] == 'bin' and t[1] == 'add' and t[3][0] == 'const':
            off, t = t[3][1], t[2]
        if t[0] == 'trunc':
            t = t[2]
        if t[0] == 'phi':
            for lp in f.loops.values():
                lr = loop_range(f, lp, tt)
                if lr is not None and tt.term(_V2(lr.iv)) == t and lr.step == 1 and lr.start[0] == 'const' and lr.bound[0] == 'const':
                    hi = lr.bound[1] + (1 if lr.pred in ('sle', 'ule') else 0)
                    if lr.pred in ('slt', 'ult', 'sle', 'ule'):
                        return (lr.start[1] + off, hi + off)
        return None
    for tab in ('of_rs_gf_exp', 'of_rs_inverse', 'of_gf_mul_table'):
        g = u.globals.get(tab)
        ctx.need(g is not None, R, 'table %s missing' % tab)
        dd = dims(g['ty'])
        ctx.need(dd, R, 'table %s has no array type' % tab)
        covered = []
        unknown = None
        full2d = False
        where = None
        for name in ('of_generate_gf', 'of_rs_init_mul_table'):
            f = u.functions.get(name)
            if f is None:
                continue
            tt = Terms(f, forward=False)
            for i in f.all_insts():
                if i.op != 'store':
                    continue
                a = tt.term(i.ops[1])
                if not _mentions_global(a, tab):
                    continue
                where = where or i
                path = []
                t = a
                while t[0] == 'elem':
                    path.append(t[2])
                    t = t[1]
                path.reverse()
                if t[0] == 'goff':
                    esz = g['bytes'] // (dd[0] * (dd[1] if len(dd) > 1 else 1))
                    flat = t[2] // esz
                    path = ([('const', flat // dd[1]), ('const', flat % dd[1])] if len(dd) > 1 else [('const', flat)]) if not path else path
                rs = [idx_range(f, tt, x) for x in path]
                if len(dd) == 1:
                    r0 = rs[0] if rs else (0, 1)
                    if r0 is None:
                        unknown = i
                    else:
                        covered.append(r0)
                else:
                    rs = rs + [(0, 1)] * (2 - len(rs)) if all(r is not None for r in rs) else rs
                    if len(rs) == 2 and all(r is not None for r in rs) and rs[0] == (0, dd[0]) and rs[1] == (0, dd[1]):
                        full2d = True
        if len(dd) > 1:
            ctx.instance(R, full2d, where or u.functions['of_rs_init_mul_table'], 'coverage:%s' % tab,
                         'no store T[i][j] with i in [0,%d) and j in [0,%d): the multiplication table is not filled completely' % (dd[0], dd[1]))
            # "anything times zero is zero": log(0) is a dummy, so row 0 and column 0 must be cleared explicitly, all of them
            f = u.functions.get('of_rs_init_mul_table')
            if f is not None:
                tt = Terms(f, forward=False)
                row0, col0 = [], []
                for i in f.all_insts():
                    if i.op == 'store' and const_of(i.ops[0]) == 0:
                        a = tt.term(i.ops[1])
                        if not _mentions_global(a, tab):
                            continue
                        path = []
                        t = a
                        while t[0] == 'elem':
                            path.append(t[2])
                            t = t[1]
                        path.reverse()
                        # &T[0][0] is folded into the base: a single index on the table itself addresses row 0
                        path = [('const', 0)] * (2 - len(path)) + path
                        r0, r1 = idx_range(f, tt, path[0]), idx_range(f, tt, path[1])
                        if r0 == (0, 1) and r1 is not None:
                            row0.append(r1)
                        if r1 == (0, 1) and r0 is not None:
                            col0.append(r0)
                    elif i.op == 'call' and i.callee in ('memset', 'bzero'):
                        a = tt.term(i.args[0])
                        if _mentions_global(a, tab):
                            ln = tt.term(i.args[1] if i.callee == 'bzero' else i.args[2])
                            fillz = i.callee == 'bzero' or const_of(i.args[1]) == 0
                            base_row0 = a in (('global', tab), ('elem', ('global', tab), ('const', 0)))
                            n_bytes = None
                            if ln[0] == 'const':
                                n_bytes = ln[1]
                            elif ln[0] == 'bin' and ln[1] == 'mul' and ln[2][0] == 'const' and ln[3][0] == 'const':
                                n_bytes = ln[2][1] * ln[3][1]
                            if fillz and base_row0 and n_bytes is not None:
                                row0.append((0, n_bytes))

                def covers(rs, n):
                    pos = 0
                    for lo, hi in sorted(rs):
                        if lo > pos:
                            break
                        pos = max(pos, hi)
                    return pos >= n, pos
                okr, pr = covers(row0, dd[1])
                okc, pc = covers(col0, dd[0])
                ctx.instance(R, okr and okc, f, 'coverage:%s:times-zero' % tab,
                             'row 0 is cleared up to entry %d of %d and column 0 up to entry %d of %d: a "times zero" product keeps the '
                             'value computed from the dummy logarithm of 0' % (pr, dd[1], pc, dd[0]))
            continue
        if unknown is not None:
            ctx.ok(R, unknown, 'coverage:%s:data-dependent' % tab, 'written through a data-dependent index: not judged')
            continue
        covered.sort()
        pos = 0
        gap = None
        for lo, hi in covered:
            if lo > pos:
                gap = (pos, lo)
                break
            pos = max(pos, hi)
        if gap is None and pos < dd[0]:
            gap = (pos, dd[0])
        ctx.instance(R, gap is None, where or u.functions['of_generate_gf'], 'coverage:%s' % tab,
                     'the generator never writes %s[%d..%d] (stores cover %s of %d entries): those entries keep whatever the static '
                     'storage held' % (tab, gap[0] if gap else 0, (gap[1] - 1) if gap else 0, covered, dd[0]))


def _V2(inst):
    class X(object):
        pass
    x = X()
    x.k = 'i'
    x.inst = inst
    x.idx = inst.id
    return x
