"""Per-property composition of rules (DESIGN.md section 6)."""
from . import pdb
from . import rules_tables as T
from . import rules_prng as P
from . import rules_iface as I
from . import rules_decode as D
from . import rules_cb as CB
from . import rules_param as PA
from . import rules_pchk as K
from . import rules_own as O
from . import rules_kernels as KN
from . import rules_hw as HW
from . import rules_flow as F
from . import rules_sib as SB
from . import rules_it as IT
from . import rules_own as _O, rules_matrix as _MX, rules_hw as _HW


def _isolate(mod):
    """A rule that cannot recognise its anchor (AnalysisBroken) must not keep the other rules of the property from running: the
    failure is recorded on the context; report.finish turns it into exit 2 unless some rule found a violation."""
    for name in dir(mod):
        fn = getattr(mod, name)
        if name.startswith('r_') and callable(fn) and not getattr(fn, '_isolated', False):
            def wrapper(ctx, *a, **k):
                fn0 = k.pop('__fn')
                try:
                    return fn0(ctx, *a, **k)
                except pdb.AnalysisBroken as e:
                    ctx.broken_rules.append((e.rule, e.reason))
                    return None
            import functools
            w = functools.partial(wrapper, __fn=fn)
            w._isolated = True
            setattr(mod, name, w)


for _m in (T, P, I, D, CB, PA, K, O, KN, HW, F, SB, IT, _O, _MX, _HW):
    _isolate(_m)

PROPS = {}
MAIN3 = [1, 2, 3]        # RS-2^8, RS-2^m, LDPC-Staircase
RS = [1, 2]
DECODE_DISPATCHERS = ['of_decode_with_new_symbol', 'of_set_available_symbols', 'of_finish_decoding',
                      'of_is_decoding_complete', 'of_get_source_symbols_tab', 'of_set_callback_functions',
                      'of_set_fec_parameters', 'of_release_codec_instance']


def prop(pid):
    def deco(f):
        PROPS[pid] = f
        return f
    return deco


def programs(ctx):
    """Release configuration always; the OF_DEBUG configuration in the thorough tier."""
    progs = [pdb.load('release')]
    if ctx.tier == 'thorough':
        progs.append(pdb.load('debug'))
    for p in progs:
        ctx.use_program(p)
    return progs


@prop('C01')
def c01(ctx):
    for prog in programs(ctx):
        I.r_layout(ctx, prog, MAIN3)
        I.r_dispatch(ctx, prog, MAIN3, DECODE_DISPATCHERS)
        D.r_dup(ctx, prog, MAIN3)
        D.r_count(ctx, prog, MAIN3)
        D.r_setavail(ctx, prog, MAIN3)
        D.r_complete(ctx, prog, MAIN3)
        CB.r_srcstore(ctx, prog, MAIN3)
        CB.r_srcptr(ctx, prog, MAIN3)
        # a decoded symbol is delivered through the callback-or-allocate rule; a NULL from the callback must not turn into a lost symbol
        CB.r_cb(ctx, prog, MAIN3)
        # the LDPC decoder injects a zero symbol on the strength of the last-symbol-null claim: that claim must be sound
        K.r_flag_truth(ctx, prog)
        K.r_extra_mark(ctx, prog)
        K.r_nullfeed(ctx, prog)
        D.r_it_step3(ctx, prog)
        F.r_ro_flow(ctx, prog, MAIN3)
        SB.r_siblings(ctx, prog, ['rs-algebra', 'rs-api'])
        F.r_init_order(ctx, prog, MAIN3)
        IT.r_symtab_writers(ctx, prog)
        IT.r_it_register(ctx, prog)
        IT.r_it_degree_only(ctx, prog)
        IT.r_copy_scale(ctx, prog, 'api')     # what the decoders can reach (the unused dense-matrix helpers are C18's)
        KN.r_kernel_shape(ctx, prog)
        KN.r_kea(ctx, prog, list(range(0, 2 * KN.P + 9)), [0, 1, 2, 3, 4, 5, 7, 8, 9, 12, 13, 16, 20])
    return dict(
        explanation='Structural necessary conditions of "a decoder never hands back a wrong source symbol", over all paths of the '
        'compiled library: control-block layouts agree with the views the generic decoders use (R-LAYOUT), every decode-side '
        'dispatcher sends each codec to its own family (R-DISPATCH), duplicates change no state (R-DUP), the bulk submission API '
        'is the same registration as n per-symbol submissions (R-SETAVAIL), "complete" implies all k slots filled and never '
        'reverts (R-COMPLETE), and nothing but received pointers and decoded buffers ever enters a symbol table (R-SRCSTORE); '
        'of_get_source_symbols_tab copies exactly k pointers (R-SRCPTR).',
        decides=['layout/dispatch/duplicate/API-equivalence/completion/table-ownership clauses for RS-2^8, RS-2^m, LDPC-Staircase'],
        not_decided=['that the decoded bytes are right (GF linear algebra, peeling and Gaussian elimination are value-level)'])


@prop('C02')
def c02(ctx):
    for prog in programs(ctx):
        D.r_rs_threshold(ctx, prog, RS)
        D.r_count(ctx, prog, RS)
        D.r_dup(ctx, prog, RS)
        D.r_setavail(ctx, prog, RS)
        D.r_complete(ctx, prog, RS)
        T.r_tables(ctx, prog)
        T.r_poly(ctx, prog)
        PA.r_param(ctx, prog, codecs=(1, 2), only=['k>=1', 'k<=MAX_K', 'n<=MAX_N'])
        SB.r_siblings(ctx, prog, ['rs-algebra', 'rs-api'])
        # "any k of the n symbols decode" is about the symbols the encoder hands out and the symbols the decoder hands back:
        # the RS encoders' accumulation loops, the delivery of decoded symbols, and the GF kernels both sides run on
        F.r_enc_loop(ctx, prog, RS)
        F.r_nullslot(ctx, prog, RS)
        CB.r_cb(ctx, prog, RS)
        CB.r_srcstore(ctx, prog, RS)
        KN.r_kernel_shape(ctx, prog, KN.GF_KINDS)
        KN.r_kea(ctx, prog, list(range(0, 2 * KN.P + 9)), [0], KN.GF_KINDS)
    return dict(
        explanation='R-PARAM (k and n clauses): an accepted (k, n) has 1 <= k <= MAX_K and n <= MAX_N = 2^m-1, the range in which the '
        'evaluation points are pairwise distinct. R-RS-THRESHOLD: both RS finish_decoding routines run the matrix decoder only with >= k symbols, return FAILURE and '
        'leave the session unfinished with fewer, and the per-symbol routines trigger decoding once k distinct symbols are counted; '
        'distinctness rests on R-DUP, API independence on R-SETAVAIL, completion flag discipline on R-COMPLETE; R-TABLES/R-POLY: the '
        'fields the generator matrices are built in are the documented ones.',
        decides=['decode triggered at k distinct symbols; fewer than k => FAILURE and never complete; both submission APIs register '
                 'the same state; field tables'],
        not_decided=['that the generator is the Vandermonde-derived MDS matrix and that inversion succeeds for every k-subset (value-level)',
                     'n <= 2^m-1 for the GF(2^m) codec is not enforced by the code (known finding of C09)'])


@prop('C04')
def c04(ctx):
    for prog in programs(ctx):
        D.r_dup(ctx, prog, [3])
        D.r_count(ctx, prog, [3])
        D.r_complete(ctx, prog, [3])
        D.r_it_step3(ctx, prog)
        K.r_globals(ctx, prog)        # the decoder is re-entered recursively: no state in function statics
        IT.r_symtab_writers(ctx, prog)
        IT.r_it_register(ctx, prog)
        IT.r_it_degree_only(ctx, prog)
        IT.r_copy_scale(ctx, prog, ['of_it_decoding.c', 'of_ldpc_staircase_api.c', 'of_matrix_sparse.c'])
        F.r_init_order(ctx, prog, [3])
        I.r_layout(ctx, prog, [3])
        D.r_retset(ctx, prog, [3])
        CB.r_cb(ctx, prog, [3])
        K.r_nullfeed(ctx, prog)
        K.r_flag_truth(ctx, prog)
        K.r_extra_mark(ctx, prog)
        K.r_role_form(ctx, prog)
    return dict(
        explanation='Only the mechanisms C04 names that are visible in the shape of the code: duplicate suppression dominates every '
        'state update of the iterative decoder (R-DUP), decoding is reported complete exactly when the scan over the k source slots '
        'finds none empty and never reverts (R-COMPLETE b, c), the LDPC control block matches the generic view (R-LAYOUT).',
        decides=['duplicates are ignored; completion predicate is "all k source slots filled", monotone'],
        not_decided=['that the set of available symbols equals the peeling closure for every arrival order (a fixpoint statement about '
                     'counters and the sparse matrix: needs execution or a model)'])


@prop('C10')
def c10(ctx):
    for prog in programs(ctx):
        D.r_finish_truth(ctx, prog, MAIN3)
        D.r_setavail(ctx, prog, MAIN3, need_order=True)
        D.r_retset(ctx, prog, MAIN3)
        D.r_complete(ctx, prog, MAIN3)
        D.r_count(ctx, prog, MAIN3)
        D.r_rs_threshold(ctx, prog, RS)
        SB.r_siblings(ctx, prog, ['rs-api'])
        CB.r_srcptr(ctx, prog, MAIN3)
        CB.r_srcstore(ctx, prog, MAIN3)
        # a callback that declines (returns NULL) must not turn a successful decoding into an error status
        CB.r_cb(ctx, prog, MAIN3)
    return dict(
        explanation='One rule per sentence of C10. R-FINISH-TRUTH: with error edges removed, finish_decoding returns OK only on paths '
        'where the session is complete and FAILURE only where a completion test made after the last table update said no. R-RETSET: '
        'the per-symbol and bulk submission routines return only OK on conforming use. R-COMPLETE: is_decoding_complete is the flag / '
        'the scan over all k slots, set only when all sources are available, monotone. R-SRCPTR + R-SRCSTORE(received): the pointer '
        'the application supplied is what the table holds and what get_source_symbols_tab copies out.',
        decides=['status/completion agreement on every path; return sets; completion predicate; pointer identity of received source symbols'],
        not_decided=['that the counters and tables the status is derived from are right on every history (C01/C04 value-level parts)'])


def _calls_source_callback(f):
    from .ir import Terms
    from .rules_decode import is_field_load
    tt = Terms(f)
    return any(c.callee is None and is_field_load(tt.term(c.calleev), 'decoded_source_symbol_callback', None) for c in f.calls())


@prop('C11')
def c11(ctx):
    for prog in programs(ctx):
        I.r_dispatch(ctx, prog, MAIN3, ['of_set_callback_functions'])
        CB.r_cb(ctx, prog, MAIN3)
        CB.r_srcstore(ctx, prog, MAIN3)
        CB.r_srcptr(ctx, prog, MAIN3)
        D.r_complete(ctx, prog, MAIN3)
        D.r_setavail(ctx, prog, MAIN3, need_order=True)
        D.r_dup(ctx, prog, MAIN3)
        # the buffers handed to / obtained from the callback must not be freed and then used or reported
        O.r_uaf(ctx, prog, _calls_source_callback, min_sites=3)
    return dict(
        explanation='R-CB: every call site of the decoded-source-symbol callback passes (context, symbol length, ESI < k), is guarded '
        'by callback != NULL, its result receives the decoded bytes and becomes the table entry, and a NULL result cannot flow to an '
        'error-only edge (the library allocates instead). R-SRCSTORE: every store of a decoded source symbol into a table goes '
        'through the callback-or-allocate choice into an empty slot; received symbols never do. With R-COMPLETE(c) (a filled slot is '
        'never emptied) this gives at most one call per decoded symbol.',
        decides=['call-site contract at all call sites; every decoded-source store consults the callback; NULL fallback'],
        not_decided=['the history-level count "exactly one call per decoded symbol" is argued from once-per-site + empty-slot guards + '
                     'monotone tables, not observed'])


@prop('C14')
def c14(ctx):
    for prog in programs(ctx):
        T.r_tables(ctx, prog)
        T.r_poly(ctx, prog)
        T.r_table_writers(ctx, prog)
        T.r_accum_init(ctx, prog)
        T.r_table_coverage(ctx, prog)
        T.r_init_before_use(ctx, prog)
    return dict(
        explanation='R-TABLES compares every entry of every compiled copy of the nine precomputed GF(2^4)/GF(2^8) tables '
        '(log, exp, inv, mul, packed two-nibble mul) read from the IR initialisers with an independent reference '
        'implementation of GF(2)[x]/(x^4+x+1) and GF(2)[x]/(x^8+x^4+x^3+x^2+1), generator x: exhaustive over the finite '
        'table index space. For the run-time generated tables of the GF(2^8) legacy codec the check is structural: '
        'R-POLY (the polynomial string selected is "101110001"), R-TABLE-WRITERS (only the parameterless generators '
        'write them, and they read only constants and the tables), R-INIT-BEFORE-USE (no reader can run before the '
        'generators).',
        decides=['every entry of the precomputed tables (exhaustive)', 'the generated tables are derived from the documented '
                 'primitive polynomial, are written only by the generators, and are initialised before any use'],
        not_decided=['that of_generate_gf / of_rs_init_mul_table compute the right entries from that polynomial (value-level: '
                     'deciding it means evaluating the loops)'],
        exhaustive=True)


@prop('C19')
def c19(ctx):
    extra = {}
    for prog in programs(ctx):
        P.r_seedrange(ctx, prog)
        info = P.r_prng_step(ctx, prog)
        P.r_prng_effect(ctx, prog)
        P.r_fpscale(ctx, prog)
        extra['step_analysis_' + prog.config] = info
        extra['fp_error_analysis_' + prog.config] = P.r_fprange(ctx, prog, info)
    return dict(
        explanation='R-SEEDRANGE: guard interval of the only store in of_rfc5170_srand is exactly [1, 2^31-2] and the stored value is '
        'the argument. R-PRNG-STEP: abstract interpretation of the loop-free update in of_rfc5170_rand with linear forms over split '
        'atoms (x = 2^k*hi_k(x)+lo_k(x)) and unsigned intervals proves next = 16807*s mod (2^31-1) for every s in [1, 2^31-2], that the '
        'result is the canonical residue in [1, 2^31-2] and that no intermediate overflows 64 bits; multiplier and modulus are read from '
        'the IR. The 10,000th-state check value then follows as A^10000 mod P on the extracted constants. R-FPSCALE: the returned '
        'expression tree is RFC 5170\'s scaling expression on the updated state. R-PRNG-EFFECT: reads/writes only of_seed, once.',
        decides=['seeding accepts exactly 1..2^31-2', 's\' = 16807*s mod (2^31-1) for all states (congruence proof, not enumeration)',
                 '10,000th state after seed 1 (from the proven recurrence and extracted constants)',
                 'the returned value is the RFC reference expression (expression tree)', 'effects of both routines'],
        not_decided=['nothing of the statement is left undecided; the floating-point claims rest on the standard IEEE-754 error model '
                     '(assumption)'],
        extra=extra)



@prop('C09')
def c09(ctx):
    extra = {}
    for prog in programs(ctx):
        extra['ok_path_guards_' + prog.config] = PA.r_param(ctx, prog)
        PA.r_accept(ctx, prog)
        P.r_seedrange(ctx, prog)     # every seed the LDPC codec accepts must be one the PRNG really takes
        I.r_apiguard(ctx, prog)
        I.r_retdef(ctx, prog)
    return dict(
        explanation='R-PARAM collects, per codec, the comparison guards that hold on every path on which of_set_fec_parameters returns OK '
        '(dispatcher restricted to the codec id, codec routine with store-forwarded fields, matrix constructor through its non-NULL '
        'returns) and derives the property\'s limits from them by interval reasoning (m by region enumeration over the constants it is '
        'compared with). R-APIGUARD: session/role/ESI/NULL tests dominate every use and dispatch in the eight scoped API functions and '
        'the four encoders; failing edges return an error status and leave the session untouched. R-RETDEF: no undefined status.',
        decides=['outside the advertised limits => rejected (all parameters, RS-2^8, RS-2^m, LDPC-Staircase)',
                 'argument guards of the dispatch layer and encoders'],
        not_decided=['inside the limits => OK and then encodes/decodes correctly (behavioural)'],
        extra=extra)


from . import rules_own as O


@prop('C08')
def c08(ctx):
    for prog in programs(ctx):
        O.r_own_field(ctx, prog, MAIN3)
        O.r_own_elem(ctx, prog, MAIN3)
        O.r_own_elem_local(ctx, prog, 'api')
        O.r_own_local(ctx, prog, 'api')
        O.r_own_overwrite(ctx, prog)
        IT.r_symtab_writers(ctx, prog)     # what enters the swept table is the decoders' business only
        O.r_uaf(ctx, prog, 'api')
        O.r_dangling(ctx, prog, 'api')
    return dict(
        explanation='R-OWN-FIELD: for each control block / matrix object, the set of members that anywhere receive a library allocation '
        'is contained in the set the destructor releases whenever non-NULL. R-OWN-ELEM: element sweeps cover exactly the library-owned '
        'index ranges and never the application-owned source slots. R-OWN-LOCAL: typestate walk for every local allocation: on every '
        'path to a non-error return it is freed, stored into a longer-lived object, returned or handed to an owning callee. R-UAF: no use '
        'of a freed SSA pointer or of a reloaded member without reassignment (double free included).',
        decides=['owned subset of released for all seven destructors; element sweeps; local allocations on success and FAILURE exits; '
                 'use-after-free / double free within a function'],
        not_decided=['leaks that need arithmetic on ESIs or the order of API calls across functions to see',
                     'error-status exits (allocation failure) are exempt by the property\'s "protocol-conforming" scope'])


from . import rules_matrix as MX

SPARSE_UNITS = ['of_matrix_sparse.c', 'of_matrix_convert.c']
DENSE_UNITS = ['of_matrix_dense.c', 'of_hamming_weight.c', 'of_ml_tool.c', 'of_matrix_convert.c']


@prop('C17')
def c17(ctx):
    for prog in programs(ctx):
        O.r_own_field(ctx, prog, [], helpers=True)
        O.r_freelist(ctx, prog)
        MX.r_dlink(ctx, prog)
        MX.r_rowcol_symmetry(ctx, prog)
        MX.r_blockchain(ctx, prog)
        MX.r_hint_order(ctx, prog)
        MX.r_idx_guard(ctx, prog, SPARSE_UNITS, floor=4)
        O.r_uaf(ctx, prog, SPARSE_UNITS, min_sites=5)
    return dict(
        explanation='Structural invariants of the sparse matrix that the set semantics rests on: every routine that takes a fresh entry '
        'links it into its row and its column completely before returning it and delete unlinks both ways and recycles the entry '
        '(R-DLINK); the free list never outlives the blocks it points into (R-FREELIST); both coordinates are checked strictly against '
        'the allocated extents before rows[]/cols[] are indexed (R-IDX-GUARD); the destructor releases rows, cols and every block '
        '(R-OWN-FIELD); no use after free inside the unit (R-UAF).',
        decides=['link/unlink pairing, free-list discipline, index guards, release completeness, no use-after-free'],
        not_decided=['set semantics under arbitrary operation sequences (ordering of traversals, idempotence of insert): model-level'])


@prop('C18')
def c18(ctx):
    for prog in programs(ctx):
        MX.r_wordgeom(ctx, prog)
        T.r_hw8(ctx, prog)
        HW.r_swar(ctx, prog)
        HW.r_hw32_table(ctx, prog)
        HW.r_hw_array(ctx, prog)
        MX.r_bitloop(ctx, prog)
        MX.r_idx_guard(ctx, prog, DENSE_UNITS, floor=4)
        O.r_own_field(ctx, prog, [], helpers=True)
        MX.r_pairswap(ctx, prog)
        MX.r_solver_ranges(ctx, prog)
        MX.r_convert_range(ctx, prog)
        MX.r_scratch_reset(ctx, prog)
        MX.r_dense_rowfill(ctx, prog)
        IT.r_copy_scale(ctx, prog, ['of_matrix_dense.c', 'of_matrix_convert.c', 'of_ml_tool.c', 'of_hamming_weight.c'])
        # the solver's symbol arithmetic: the XOR kernels only (the GF kernels belong to the Reed-Solomon codecs, not to C18)
        KN.r_kernel_shape(ctx, prog, KN.XOR_KINDS)
        KN.r_kea(ctx, prog, list(range(0, 2 * KN.P + 9)), [0, 1, 2, 3, 4, 5, 7, 8, 9, 12, 13, 16, 20], KN.XOR_KINDS)
    return dict(
        explanation='R-WORDGEOM: word/bit addressing constants of get/set/flip and of the allocator are mutually consistent with the '
        'word type. R-HW8: the byte popcount table is exact (exhaustive). R-BITLOOP: the bit-serial popcount visits every bit. '
        'R-IDX-GUARD: guarded row/column indices are compared strictly with the dimension the indexed array was allocated with. '
        'R-OWN-FIELD: the destructor releases both allocations. R-PAIRSWAP: the solver exchanges right-hand sides with rows. '
        'R-SWAR: of_popcount_3 and of_hweight32 are proven to return the population count for every input (abstract interpretation '
        'in the domain of integer linear forms over the input bits; every shift, mask, add and multiply is discharged as carry-free). '
        'R-HW32-TABLE: the table popcount adds the exact table over the four distinct bytes. R-HW-ARRAY: of_hweight_array reads exactly '
        'the words holding bits [0,size), each byte once, and sums one proven popcount per word (all size classes of the period). '
        'R-KEA (XOR kernels only): the symbol arithmetic the solver uses is byte-exact for every length.',
        decides=['bit addressing geometry, popcount table, all four popcount helpers and the array popcount for every input, bit-loop trip '
                 'count, index guards vs extents, row/constant-term swap pairing, scratch reset, row fill, XOR kernel extents and values'],
        not_decided=['that get/set/copy/weights equal the bit-matrix model for all dimensions; that the solver returns the unique solution '
                     'iff full column rank (value-level)'],
        exhaustive=False)


from . import rules_pchk as K


@prop('C05')
def c05(ctx):
    for prog in programs(ctx):
        K.r_pure_pchk(ctx, prog)
        P.r_srand_dom(ctx, prog)
        P.r_seedrange(ctx, prog)
        P.r_fpscale(ctx, prog)
        P.r_prng_step(ctx, prog)
        PA.r_param(ctx, prog, codecs=(3,), only=['seed', 'N1>=3', 'N1<=r'])
        K.r_staircase(ctx, prog)
        K.r_colfill(ctx, prog)
        K.r_rowdeg2(ctx, prog)
        K.r_verbosity(ctx, prog)
    return dict(
        explanation='"Depends only on (k, n, N1, seed), same for encoder and decoder, after any history": R-PURE-PCHK (effects of the '
        'constructor and of everything it calls; call-site arguments; no role dependence), R-SRAND-DOM (seeded from the seed parameter '
        'before every draw), R-PARAM(seed, N1) (every accepted seed is one the PRNG really takes), R-SEEDRANGE/R-PRNG-STEP/R-FPSCALE '
        '(the generator is Park-Miller with RFC 5170\'s scaling expression), R-VERBOSITY. Shape of the RFC 5170 matrix that is visible '
        'structurally: R-COLFILL (exactly N1 distinct ones in each source column) and R-STAIRCASE (exact staircase on the right).',
        decides=['the matrix is a function of (k, n, N1, seed) only, identical for encoder and decoder and after any history',
                 'PRNG identity (recurrence, scaling expression)', 'N1 ones per source column; exact staircase'],
        not_decided=['that the left-side fill (choice list u[], replacement by u[t], extra-entry rule) reproduces RFC 5170 entry for entry'])


@prop('C12')
def c12(ctx):
    for prog in programs(ctx):
        K.r_globals(ctx, prog)
        K.r_verbosity(ctx, prog)
        P.r_seedrange(ctx, prog)
        P.r_srand_dom(ctx, prog)
        P.r_prng_effect(ctx, prog)
        PA.r_param(ctx, prog, codecs=(3,), only=['seed'])
        T.r_table_writers(ctx, prog)
        T.r_init_before_use(ctx, prog)
    return dict(
        explanation='Cross-session channels are exactly the reviewed writable globals (R-GLOBALS: writers frozen per global; a new '
        'writable static makes the check ANALYSIS-BROKEN rather than pass): of_seed is fully re-seeded from the session\'s own seed before '
        'every draw (R-SRAND-DOM + accepted seeds are valid, R-PARAM), the RS-2^8 tables are constant after a parameterless one-shot '
        'initialisation (R-TABLE-WRITERS, R-INIT-BEFORE-USE), of_verbosity only controls printing (R-VERBOSITY), libc rand() only '
        'permutes an injection order. Everything else a session touches is reached through its own control block.',
        decides=['no state shared between sessions other than the reviewed, benign globals'],
        not_decided=['benignness of a new writable static (reported as ANALYSIS-BROKEN by design)',
                     'heap-level interference (allocator state) is outside the library'])


@prop('C15')
def c15(ctx):
    for prog in programs(ctx):
        K.r_flag_truth(ctx, prog)
        K.r_extra_mark(ctx, prog)
        K.r_colfill(ctx, prog)
        K.r_staircase(ctx, prog)
        K.r_nullfeed(ctx, prog)
        K.r_pure_pchk(ctx, prog)
        # the marker computed by the matrix constructor must not be re-initialised afterwards
        F.r_init_order(ctx, prog, [3])
    return dict(
        explanation='Chain deciding C15: R-FLAG-TRUTH (the query answers true iff no extra entries and N1 even; truth table enumerated over '
        'the path conditions; role-independent), R-EXTRA-MARK (every entry beyond the column fill and the staircase is counted and the '
        'marker is count >= 1), R-COLFILL (each source column has exactly N1 ones), R-STAIRCASE (parity columns: two ones each, the last '
        'one a single one), R-NULLFEED (the decoder assumes a zero symbol only under that answer, with a zero buffer of the symbol length '
        'and ESI n-1), R-PURE-PCHK (encoder and decoder build the same matrix). Lemma (written in DESIGN.md): summing all rows of H, every '
        'source column contributes N1 (even) ones and every parity column but the last two, so the last repair symbol equals zero.',
        decides=['all of C15 given the one-line lemma'],
        not_decided=[])


from . import rules_kernels as KN


@prop('C13')
def c13(ctx):
    runs = 0
    for prog in programs(ctx):
        KN.r_kernel_shape(ctx, prog)
        if ctx.tier == 'thorough':
            sizes, counts = list(range(0, 8 * KN.P + 1)), list(range(0, 25))
        else:
            sizes, counts = list(range(0, 4 * KN.P + 1)), list(range(0, 21))
        runs += KN.r_kea(ctx, prog, sizes, counts) or 0
        T.r_tables(ctx, prog)
    return dict(
        explanation='Kernel extent analysis: an abstract interpreter over the IR of the seven kernels (exact integers for size-derived '
        'scalars, (region, offset) pointers, per-nibble XOR-sets of provenance atoms for data) computes, per size class and operand '
        'count, the exact set of bytes loaded and stored per buffer and the provenance formula of every stored byte, and compares them '
        'with the byte-wise definition. R-KERNEL-SHAPE shows syntactically that every extent expression is quasi-affine in the size '
        'with period dividing 16 and that no address or data byte influences control flow, so the finite range (sizes 0..64, operand '
        'counts 0..20; 0..128 and 0..24 in the thorough tier) covers all sizes, counts and alignments. Table contents are covered by R-TABLES.',
        decides=['exact store extent [0,size) per destination', 'no load outside [0,size) / outside the operand table', 'sources never '
                 'written', 'every stored byte equals the byte-wise definition', 'alignment independence (no address enters control flow)'],
        not_decided=['unaligned 64-bit accesses are a platform matter'],
        extra={'abstract_runs': runs})


from . import rules_flow as F

ALL4 = [1, 2, 3, 5]


@prop('C03')
def c03(ctx):
    for prog in programs(ctx):
        D.r_setavail(ctx, prog, [3])
        F.r_ml_pipeline(ctx, prog)
        F.r_ml_giveup(ctx, prog)
        F.r_init_order(ctx, prog, [3])
        IT.r_symtab_writers(ctx, prog)
        # the solver's result reaches the application through the callback-or-allocate rule and the source-symbol table
        CB.r_cb(ctx, prog, [3])
        CB.r_srcstore(ctx, prog, [3])
        D.r_finish_truth(ctx, prog, [3])
        MX.r_pairswap(ctx, prog)
        MX.r_solver_ranges(ctx, prog)
        MX.r_convert_range(ctx, prog)
        MX.r_scratch_reset(ctx, prog)
        # ML decoding starts from the state the iterative decoder leaves, including the pre-loaded null last repair symbol: that
        # claim must be sound, and the XOR kernels the solver uses must be byte-exact
        K.r_flag_truth(ctx, prog)
        K.r_extra_mark(ctx, prog)
        K.r_nullfeed(ctx, prog)
        KN.r_kernel_shape(ctx, prog, KN.XOR_KINDS)
        KN.r_kea(ctx, prog, list(range(0, 2 * KN.P + 9)), [0, 1, 2, 3, 4, 5, 7, 8, 9, 12, 13, 16, 20], KN.XOR_KINDS)
    return dict(
        explanation='Mechanism only. R-SETAVAIL: the bulk submission API is n per-symbol submissions, so the outcome cannot depend on the '
        'API. R-ML-PIPELINE: every path of the ML routine to OK through the solver passes, in order, the injection of all k source '
        'slots and all n-k repair slots, the creation of the simplified system, the conversion to dense, the solver and the write-back '
        'over all k slots. R-FINISH-TRUTH: the status is OK only when complete and FAILURE only after a negative completion test. '
        'R-PAIRSWAP / R-SCRATCH-RESET: the solver keeps right-hand sides with their rows and starts from an empty scratch list.',
        decides=['API/order-independence mechanism; completeness of the injection and write-back stages; status/completion agreement'],
        not_decided=['"succeeds iff the source symbols are uniquely determined": a rank condition; pivot search and '
                     'back-substitution are right or wrong by their values (the dimension give-up test is decided by R-ML-GIVEUP)'])


@prop('C06')
def c06(ctx):
    for prog in programs(ctx):
        T.r_tables(ctx, prog)
        T.r_poly(ctx, prog)
        F.r_ro_flow(ctx, prog, MAIN3)
        F.r_nullslot(ctx, prog, MAIN3)
        F.r_enc_loop(ctx, prog, MAIN3)
        SB.r_siblings(ctx, prog, ['rs-algebra'])
        # the LDPC-Staircase codeword is defined by the RFC 5170 matrix: construction steps and the generator behind them
        P.r_srand_dom(ctx, prog)
        P.r_fpscale(ctx, prog)
        P.r_prng_step(ctx, prog)
        K.r_colfill(ctx, prog)
        K.r_rowdeg2(ctx, prog)
        K.r_staircase(ctx, prog)
        I.r_apiguard(ctx, prog, which=['of_build_repair_symbol', 'of_rs_build_repair_symbol', 'of_rs_2_m_build_repair_symbol',
                                      'of_ldpc_staircase_build_repair_symbol'])
        I.r_dispatch(ctx, prog, MAIN3, ['of_build_repair_symbol', 'of_set_fec_parameters'])
        KN.r_kernel_shape(ctx, prog)
        KN.r_kea(ctx, prog, list(range(0, 2 * KN.P + 9)), [0, 1, 2, 3, 4, 5, 7, 8, 9, 12, 13, 16, 20])
    return dict(
        explanation='R-TABLES + R-POLY: both RS codecs compute in the documented fields (precondition of byte-compatibility of codec 1 '
        'and codec 2 with m=8). R-RO-FLOW: encoders never write a source buffer (only the repair slot being built). R-NULLSLOT: a NULL '
        'output slot is replaced by a library allocation of the symbol length before anything is written through it. R-ENC-LOOP: the '
        'output is zeroed and exactly the k scaled source symbols (RS) / the other entries of the equation (LDPC) are accumulated. '
        'R-APIGUARD(build): k <= esi < n. R-KEA: the accumulation kernels are exact.',
        decides=['fields; read-only sources; NULL-slot contract; accumulation structure; ESI range; kernel exactness'],
        not_decided=['the generator coefficients (that RS repair symbols are the Vandermonde-systematic ones): value-level'])


@prop('C07')
def c07(ctx):
    for prog in programs(ctx):
        I.r_apiguard(ctx, prog)
        I.r_layout(ctx, prog, MAIN3)
        F.r_ro_flow(ctx, prog, MAIN3)
        F.r_nullslot(ctx, prog, MAIN3)
        MX.r_idx_guard(ctx, prog, None, floor=20)
        O.r_uaf(ctx, prog, 'api')
        O.r_dangling(ctx, prog, 'api')
        O.r_freelist(ctx, prog)
        CB.r_srcptr(ctx, prog, MAIN3)
        # the RS decoders scan their n-entry tables for k non-NULL entries: the count that starts decoding must be a count of
        # distinct symbols (a duplicate counted twice sends the scan past the table)
        D.r_dup(ctx, prog, RS)
        D.r_count(ctx, prog, RS)
        D.r_rs_threshold(ctx, prog, RS)
        # counters that index the ML solution vector must not be re-initialised after the null symbol was pre-loaded; buffers
        # handed to the application must not be entered into the table the destructor sweeps
        F.r_init_order(ctx, prog, MAIN3)
        IT.r_symtab_writers(ctx, prog)
        KN.r_kernel_shape(ctx, prog)
        if ctx.tier == 'thorough':
            KN.r_kea(ctx, prog, list(range(0, 4 * KN.P + 1)), list(range(0, 21)))
        else:
            KN.r_kea(ctx, prog, list(range(0, 2 * KN.P + 9)), [0, 1, 2, 3, 4, 5, 7, 8, 9, 12, 13, 16, 20])
    return dict(
        explanation='R-APIGUARD: session/role/ESI/NULL tests dominate every table access of the dispatch layer and encoders. R-RO-FLOW: '
        'no write sink (libc writers, XOR/GF kernels, writing callees through summaries) has a received symbol or an encoder source '
        'as destination; RS decoding works on private copies. R-NULLSLOT. R-IDX-GUARD: guarded indices are strict and against the '
        'allocated extent. R-UAF / R-DANGLING / R-FREELIST: no use of freed memory, no dangling member. R-LAYOUT: generic code reads '
        'the members it thinks it reads. R-SRCPTR: exactly k pointers copied out. R-KEA: the kernels touch exactly [0, size).',
        decides=['argument guards; read-only treatment of application buffers; guarded index bounds; use-after-free; kernel extents'],
        not_decided=['bounds of accesses whose index is read out of the sparse matrix or an index table (they rest on data-structure '
                     'invariants), heap layout, alignment traps'])


@prop('C16')
def c16(ctx):
    for prog in programs(ctx):
        I.r_layout(ctx, prog, [5])
        I.r_dispatch(ctx, prog, [5])
        I.r_apiguard(ctx, prog, which=['of_2d_parity_build_repair_symbol', 'of_decode_with_new_symbol', 'of_set_available_symbols',
                                      'of_finish_decoding', 'of_build_repair_symbol'])
        D.r_setavail(ctx, prog, [5], need_order=True)
        D.r_complete(ctx, prog, [5])
        D.r_dup(ctx, prog, [5])
        CB.r_srcstore(ctx, prog, [5])
        CB.r_srcptr(ctx, prog, [5])
        F.r_nullslot(ctx, prog, [5])
        F.r_enc_loop(ctx, prog, [5])
        F.r_ro_flow(ctx, prog, [5])
        F.r_init_order(ctx, prog, [5])
        F.r_2d_divisible(ctx, prog)
        # "released without leak at any point": local allocations of the decoders the 2D codec runs on
        O.r_own_local(ctx, prog, ['of_it_decoding.c', 'of_ml_decoding.c', 'of_ml_tool.c', 'of_2d_parity_api.c', 'of_create_pchk.c'])
        F.r_2d_radix(ctx, prog)
        O.r_own_field(ctx, prog, [5], helpers=False)
        O.r_own_elem(ctx, prog, [5])
    return dict(
        explanation='For codec 5: R-LAYOUT (its control block matches the linear-binary view the generic decoders use), R-DISPATCH, '
        'R-APIGUARD, R-SETAVAIL (bulk submission = per-symbol submissions, sources first), R-COMPLETE, R-DUP, R-SRCSTORE/R-SRCPTR, '
        'R-NULLSLOT, R-ENC-LOOP (encoder satisfies each check: zeroed output plus every other entry of the equation), R-RO-FLOW, '
        'R-OWN-FIELD/R-OWN-ELEM (released without leak), and R-2D-RADIX: in the matrix fill the column strides form a mixed radix, so '
        'row checks and column checks each cover every source symbol exactly once, each check with its own repair column.',
        decides=['interface structure of codec 5; product structure of the check matrix (each source in exactly one row check and one '
                 'column check); encoder accumulates each check; release completeness'],
        not_decided=['completeness of erasure recovery for every uniquely determined pattern (peeling + Gaussian elimination are '
                     'value-level)', 'that the factorisation search accepts exactly the (k, n-k) it should'])
