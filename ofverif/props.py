"""Per-property composition of rules (DESIGN.md section 6)."""
from . import pdb
from . import rules_tables as T

PROPS = {}


def prop(pid):
    def deco(f):
        PROPS[pid] = f
        return f
    return deco


def programs(ctx):
    """Release configuration always; the OF_DEBUG configuration in the thorough tier."""
    progs = [pdb.load('release')]
    if ctx.tier == 'thorough':
        progs.append(pdb.load('debug'))
    for p in progs:
        ctx.use_program(p)
    return progs


@prop('C14')
def c14(ctx):
    for prog in programs(ctx):
        T.r_tables(ctx, prog)
        T.r_poly(ctx, prog)
        T.r_table_writers(ctx, prog)
        T.r_init_before_use(ctx, prog)
    return dict(
        explanation='R-TABLES compares every entry of every compiled copy of the nine precomputed GF(2^4)/GF(2^8) tables '
        '(log, exp, inv, mul, packed two-nibble mul) read from the IR initialisers with an independent reference '
        'implementation of GF(2)[x]/(x^4+x+1) and GF(2)[x]/(x^8+x^4+x^3+x^2+1), generator x: exhaustive over the finite '
        'table index space. For the run-time generated tables of the GF(2^8) legacy codec the check is structural: '
        'R-POLY (the polynomial string selected is "101110001"), R-TABLE-WRITERS (only the parameterless generators '
        'write them, and they read only constants and the tables), R-INIT-BEFORE-USE (no reader can run before the '
        'generators).',
        decides=['every entry of the precomputed tables (exhaustive)', 'the generated tables are derived from the documented '
                 'primitive polynomial, are written only by the generators, and are initialised before any use'],
        not_decided=['that of_generate_gf / of_rs_init_mul_table compute the right entries from that polynomial (value-level: '
                     'deciding it means evaluating the loops)'],
        exhaustive=True)


from . import rules_prng as P


@prop('C19')
def c19(ctx):
    extra = {}
    for prog in programs(ctx):
        P.r_seedrange(ctx, prog)
        info = P.r_prng_step(ctx, prog)
        P.r_prng_effect(ctx, prog)
        P.r_fpscale(ctx, prog)
        extra['step_analysis_' + prog.config] = info
    return dict(
        explanation='R-SEEDRANGE: guard interval of the only store in of_rfc5170_srand is exactly [1, 2^31-2] and the stored value is '
        'the argument. R-PRNG-STEP: abstract interpretation of the loop-free update in of_rfc5170_rand with linear forms over split '
        'atoms (x = 2^k*hi_k(x)+lo_k(x)) and unsigned intervals proves next = 16807*s mod (2^31-1) for every s in [1, 2^31-2], that the '
        'result is the canonical residue in [1, 2^31-2] and that no intermediate overflows 64 bits; multiplier and modulus are read from '
        'the IR. The 10,000th-state check value then follows as A^10000 mod P on the extracted constants. R-FPSCALE: the returned '
        'expression tree is RFC 5170\'s scaling expression on the updated state. R-PRNG-EFFECT: reads/writes only of_seed, once.',
        decides=['seeding accepts exactly 1..2^31-2', 's\' = 16807*s mod (2^31-1) for all states (congruence proof, not enumeration)',
                 '10,000th state after seed 1 (from the proven recurrence and extracted constants)',
                 'the returned value is the RFC reference expression (expression tree)', 'effects of both routines'],
        not_decided=['the floating-point claims (result in 0..maxv-1, equals exact floor below 2^53): rounding behaviour of the double '
                     'expression is not analysed'],
        extra=extra)


from . import rules_iface as I


def _dbg(ctx):
    """scratch: run interface rules"""
    for prog in programs(ctx):
        I.r_dispatch(ctx, prog)
        I.r_layout(ctx, prog)
        I.r_apiguard(ctx, prog)
        I.r_retdef(ctx, prog)
        from . import rules_decode as D
        allc = [1, 2, 3, 5]
        D.r_dup(ctx, prog, allc)
        D.r_setavail(ctx, prog, allc)
        D.r_rs_threshold(ctx, prog, allc)
        D.r_complete(ctx, prog, allc)
        D.r_retset(ctx, prog, allc)
        D.r_finish_truth(ctx, prog, allc)
    return dict(explanation='x', decides=[], not_decided=[])


PROPS['DBG'] = _dbg
