"""Interface-structure rules: R-LAYOUT, R-DISPATCH, R-APIGUARD, R-RETDEF."""
import re

from .ir import Terms, strip_casts, const_of, atoms_at, has_atom, show, ret_sources, guards_at, out_edges, \
    returned_constants, blocks_reaching

API_UNIT = 'of_openfec_api.c'
OK, FAILURE, ERROR, FATAL = 0, 1, 2, 3
CODEC_NAMES = {1: 'RS-2^8', 2: 'RS-2^m', 3: 'LDPC-Staircase', 5: '2D-parity', 6: 'LDPC-from-file'}


def _struct_of(ty):
    m = re.match(r'%struct\.([A-Za-z0-9_]+?)(\.\d+)?\*+$', ty or '')
    return m.group(1) if m else None


# ------------------------------------------------------------------ codec map
def codec_map(ctx, prog, rule='R-DISPATCH'):
    """codec id -> dict(create=callee name, struct=control block type) read from of_create_codec_instance."""
    f = prog.need_fn('of_create_codec_instance', rule)
    sw = [b.term() for b in f.blocks if b.term().op == 'switch']
    ctx.need(len(sw) == 1, rule, 'of_create_codec_instance: expected one switch on the codec id')
    sw = sw[0]
    tt = Terms(f)
    ctx.need(tt.term(sw.cond) == ('param', 1), rule, 'create switch is not on the codec_id argument')
    out = {}
    for val, bid in sw.cases:
        if bid == sw.default:
            continue
        b = f.bmap[bid]
        calls = [c for c in b.insts if c.op == 'call' and c.callee and c.callee.endswith('create_codec_instance')]
        ctx.need(len(calls) == 1, rule, 'create case %d does not call exactly one *_create_codec_instance' % val)
        g = prog.callee_fn(calls[0])
        ctx.need(g is not None, rule, 'creator %s not found' % calls[0].callee)
        st = _struct_of(g.params[0]['ty'])
        ctx.need(st is not None, rule, 'creator %s does not take a control-block pointer' % g.name)
        out[val] = {'create': g, 'struct': st, 'call': calls[0]}
    ctx.need(len(out) >= 3, rule, 'fewer than three codecs in of_create_codec_instance')
    return out


def r_dispatch(ctx, prog, codecs=None, which=None):
    """codecs: restrict reported instances to these codec ids (None = all); which: restrict to these dispatcher names."""
    R = 'R-DISPATCH'
    ctx.rule(R, 'every dispatcher of the public API sends codec id c to a function taking c\'s control-block type, for every '
             'codec the library can create; each creator reallocates sizeof(that type) and stamps that id', floor=1)
    cm = codec_map(ctx, prog)
    u = [x for x in prog.units if x.name == API_UNIT]
    ctx.need(u, R, 'unit %s missing' % API_UNIT)
    u = u[0]
    # creators
    for c, info in sorted(cm.items()):
        if codecs is not None and c not in codecs:
            continue
        g = info['create']
        tt = Terms(g, forward=False)
        size = prog.distructs.get(info['struct'], {}).get('size')
        re_ok = False
        for call in g.calls():
            if call.callee in ('of_realloc', 'realloc'):
                if const_of(call.args[1]) == size:
                    re_ok = True
        ctx.instance(R, re_ok, g, 'create:%d:size' % c,
                     '%s must reallocate the control block to sizeof(%s) = %s bytes' % (g.name, info['struct'], size))
        ids = [i for i in g.all_insts() if i.op == 'store' and tt.term(i.ops[1])[0] == 'field' and tt.term(i.ops[1])[2] == 'codec_id']
        id_ok = len(ids) >= 1 and all(const_of(i.ops[0]) == c for i in ids)
        ctx.instance(R, id_ok, g, 'create:%d:id' % c, '%s must store codec id %d into the block it creates' % (g.name, c))
    # dispatchers
    ndisp = 0
    for f in sorted(u.functions.values(), key=lambda f: f.name):
        if f.name == 'of_create_codec_instance':
            continue
        if which is not None and f.name not in which:
            continue
        tt = Terms(f)
        sws = [b.term() for b in f.blocks if b.term().op == 'switch']
        sws = [s for s in sws if tt.term(s.cond) == ('load', ('field', ('param', 0), 'codec_id', 0))]
        if not sws:
            continue
        ndisp += 1
        sw = sws[0]
        cases = dict((v, f.bmap[b]) for v, b in sw.cases if b != sw.default)
        for c, info in sorted(cm.items()):
            if codecs is not None and c not in codecs:
                continue
            key = '%s:codec%d' % (f.name, c)
            if c not in cases:
                ctx.fail(R, f, key, '%s has no case for codec %d (%s): a valid session of that codec is rejected here' %
                         (f.name, c, CODEC_NAMES.get(c, '?')))
                continue
            b = cases[c]
            calls = [x for x in b.insts if x.op == 'call' and x.callee and prog.callee_fn(x) is not None]
            if not calls:
                if f.name == 'of_set_control_parameter' and c == 1:
                    # reasoned exception (DESIGN 5, R-DISPATCH): the RS-2^8 case is commented out in the source; outside
                    # every property's wording
                    ctx.ok(R, b.term(), key, 'no call (reasoned exception)')
                    continue
                ctx.fail(R, b.term(), key, '%s: case for codec %d calls nothing' % (f.name, c))
                continue
            for call in calls:
                g = prog.callee_fn(call)
                st = _struct_of(g.params[0]['ty']) if g.params else None
                ok = st == info['struct']
                a0 = tt.term(call.args[0]) if call.args else None
                ok = ok and a0 == ('param', 0)
                ctx.instance(R, ok, call, key,
                             '%s: codec %d (%s, control block %s) is dispatched to %s which takes %s' %
                             (f.name, c, CODEC_NAMES.get(c, '?'), info['struct'], g.name, st))
                # the dispatcher's own arguments are forwarded in their order (two callbacks of the same type, swapped, compile)
                fw = [tt.term(a) for a in call.args]
                pos = [t[1] for t in fw if t[0] == 'param']
                if len(pos) == len(fw) and len(fw) == len(f.params) and len(fw) >= 3:
                    ctx.instance(R, pos == sorted(pos), call, key + ':forward-order',
                                 '%s forwards its arguments to %s in the order %s: two parameters of the same type are exchanged' %
                                 (f.name, g.name, pos))
    ctx.need(ndisp >= (8 if which is None else min(8, len([w for w in which if w != 'of_create_codec_instance']))), R,
             'found only %d dispatchers switching on ses->codec_id' % ndisp)
    return cm


# ------------------------------------------------------------------ layout
def _cast_edges(prog):
    edges = {}
    for f in prog.all_functions:
        for i in f.all_insts():
            if i.op == 'bitcast':
                a, b = _struct_of(i.fromty), _struct_of(i.ty)
                # T** -> V** counts as well (creators)
                if a and b and a != b:
                    edges.setdefault(a, {}).setdefault(b, i)
    return edges


def _view_accesses(prog):
    """struct name -> {field name -> first GEP instruction accessing it through that struct type}."""
    acc = {}
    for f in prog.all_functions:
        for i in f.all_insts():
            if i.op == 'getelementptr' and i.path:
                for st in i.path:
                    if st['kind'] == 'field':
                        acc.setdefault(st['struct'].split('.')[0] if re.search(r'\.\d+$', st['struct']) else st['struct'], {}) \
                            .setdefault(st['field'], i)
    return acc


def r_layout(ctx, prog, codecs=None):
    R = 'R-LAYOUT'
    ctx.rule(R, 'for every control block type T created for a codec and every view V it is cast to, each member of V that the '
             'program accesses through a V pointer exists in T with the same name, offset, size and type', floor=1)
    cm = codec_map(ctx, prog, R)
    edges = _cast_edges(prog)
    acc = _view_accesses(prog)
    if prog.layout_conflicts:
        for n, unit in prog.layout_conflicts:
            ctx.fail(R, (n, unit), 'conflict:' + n, 'struct %s has different layouts in different translation units' % n)
    generic = 'of_session'
    for c, info in sorted(cm.items()):
        if codecs is not None and c not in codecs:
            continue
        T = info['struct']
        ctx.need(T in prog.distructs, R, 'no debug-info layout for %s' % T)
        # views: closure from T without passing through the generic handle, plus what the generic handle is viewed as
        # by code that does not know the codec (of_session -> of_cb)
        views = {}
        todo = [T]
        seen = set([T])
        while todo:
            x = todo.pop()
            for y, inst in edges.get(x, {}).items():
                if y in seen:
                    continue
                if y in [i2['struct'] for i2 in cm.values()]:
                    continue            # another codec's concrete type: dispatch rule's business
                seen.add(y)
                views[y] = (x, inst)
                if y != generic:
                    todo.append(y)
        for y, inst in edges.get(generic, {}).items():
            if y not in [i2['struct'] for i2 in cm.values()] and y not in views:
                views[y] = (generic, inst)
        tm = dict((m['name'], m) for m in prog.distructs[T]['members'])
        for V, (via, cinst) in sorted(views.items()):
            if V not in prog.distructs:
                continue
            for m in prog.distructs[V]['members']:
                if m['name'] not in acc.get(V, {}):
                    continue     # never accessed through this view: layout irrelevant
                use = acc[V][m['name']]
                t = tm.get(m['name'])
                key = 'codec%d:%s->%s.%s' % (c, T, V, m['name'])
                if t is None:
                    # is there some other member at that offset?
                    other = [x['name'] for x in prog.distructs[T]['members'] if x['off'] == m['off']]
                    ctx.fail(R, use, key,
                             '%s (codec %d) is used through view %s (cast from %s at %s); %s.%s at offset %d is accessed (e.g. in %s) '
                             'but %s has no such member (offset %d holds %s)' %
                             (T, c, V, via, cinst.loc(), V, m['name'], m['off'], use.fn.name, T, m['off'], other or 'nothing'))
                elif (t['off'], t['size'], t['ty']) != (m['off'], m['size'], m['ty']):
                    ctx.fail(R, use, key,
                             '%s.%s is at offset %d size %d type %s but view %s expects offset %d size %d type %s; accessed through the '
                             'view in %s' % (T, m['name'], t['off'], t['size'], t['ty'], V, m['off'], m['size'], m['ty'], use.fn.name))
                else:
                    ctx.ok(R, use, key)
    # parameter blocks: application allocates the codec-specific struct, library receives of_parameters*
    if 'of_parameters' in prog.distructs:
        base = prog.distructs['of_parameters']
        for V in sorted(edges.get('of_parameters', {})):
            if V not in prog.distructs:
                continue
            vm = dict((m['name'], m) for m in prog.distructs[V]['members'])
            for m in base['members']:
                t = vm.get(m['name'])
                key = 'params:%s.%s' % (V, m['name'])
                ok = t is not None and (t['off'], t['size']) == (m['off'], m['size'])
                ctx.instance(R, ok, edges['of_parameters'][V], key,
                             'common parameter %s must sit at offset %d in %s' % (m['name'], m['off'], V))


# ------------------------------------------------------------------ API guards
DISPATCH_GUARDS = {
    # function: (role mask or None, extra)
    'of_build_repair_symbol': 1, 'of_decode_with_new_symbol': 2, 'of_set_available_symbols': 2,
    'of_finish_decoding': 2, 'of_is_decoding_complete': 2, 'of_get_source_symbols_tab': 2,
    'of_get_control_parameter': None, 'of_set_fec_parameters': None,
}


def _ses_field(name, off):
    return ('load', ('field', ('param', 0), name, off))


def r_apiguard(ctx, prog, which=None):
    R = 'R-APIGUARD'
    ctx.rule(R, 'in the dispatch layer every use of the session is dominated by a NULL test, the dispatch by the role test '
             '(and ESI range / buffer NULL tests where the API has those arguments); every failing edge returns an error '
             'status and stores nothing through the session; each encoder checks k <= esi < n before indexing', floor=1)
    for name, role in sorted(DISPATCH_GUARDS.items()):
        if which is not None and name not in which:
            continue
        f = prog.need_fn(name, R)
        tt = Terms(f)
        sws = [b for b in f.blocks if b.term().op == 'switch' and
               tt.term(b.term().cond) == _ses_field('codec_id', 0)]
        ctx.need(len(sws) == 1, R, '%s: dispatch switch on ses->codec_id not found' % name)
        swb = sws[0]
        atoms = atoms_at(f, tt, swb)
        # (a) derefs of ses
        n = 0
        bad = None
        for i in f.all_insts():
            if i.op in ('load', 'store'):
                a = tt.term(i.ops[0] if i.op == 'load' else i.ops[1])
                if a[0] == 'field' and a[1] == ('param', 0):
                    n += 1
                    if not has_atom(atoms_at(f, tt, i.block), 'ne', ('param', 0), ('const', 0)):
                        # the test itself may be in the same block after... loads happen after the branch only
                        bad = i
        ctx.instance(R, bad is None and n > 0, bad or f, name + ':ses-null',
                     '%s dereferences the session without a dominating ses != NULL test' % name)
        # params NULL for set_fec_parameters
        if name == 'of_set_fec_parameters':
            ok = has_atom(atoms, 'ne', ('param', 1), ('const', 0))
            ctx.instance(R, ok, swb.term(), name + ':params-null', 'dispatch must be dominated by params != NULL')
        # (b) role
        if role is not None:
            ok = False
            for a in atoms:
                if a[0] == 'cmp' and a[1] == 'ne' and a[3] == ('const', 0):
                    t = a[2]
                    if t[0] == 'bin' and t[1] == 'and' and _ses_field('codec_type', 4) in (t[2], t[3]) and \
                            ('const', role) in (t[2], t[3]):
                        ok = True
            ctx.instance(R, ok, swb.term(), name + ':role',
                         '%s must test codec_type & %s before dispatching' % (name, 'OF_ENCODER' if role == 1 else 'OF_DECODER'))
        # (c)
        if name == 'of_decode_with_new_symbol':
            n_t = ('bin', 'add', _ses_field('nb_source_symbols', 8), _ses_field('nb_repair_symbols', 12))
            n_t2 = ('bin', 'add', n_t[3], n_t[2])
            ok = has_atom(atoms, 'ult', ('param', 2), n_t) or has_atom(atoms, 'ult', ('param', 2), n_t2)
            ctx.instance(R, ok, swb.term(), name + ':esi-range',
                         'dispatch must be dominated by new_symbol_esi < nb_source_symbols + nb_repair_symbols')
            ok = has_atom(atoms, 'ne', ('param', 1), ('const', 0))
            ctx.instance(R, ok, swb.term(), name + ':buf-null', 'dispatch must be dominated by new_symbol_buf != NULL')
        if name == 'of_set_available_symbols':
            ok = has_atom(atoms, 'ne', ('param', 1), ('const', 0))
            ctx.instance(R, ok, swb.term(), name + ':tab-null', 'dispatch must be dominated by encoding_symbols_tab != NULL')
        # (d) failing edges: blocks not leading to the switch return a constant error and store nothing through ses
        reach_sw = blocks_reaching(f, [swb])
        okret = True
        badret = None
        for v, chain, r in ret_sources(f):
            # a returned value arriving from a block that cannot have passed the switch
            src_bid = chain[0][0] if chain else r.block.id
            srcb = f.bmap[src_bid]
            passed = swb.id in blocks_reaching(f, [srcb]) and f.bdom(swb, srcb)
            if passed:
                continue
            c = const_of(v) if v is not None else None
            if name == 'of_is_decoding_complete':
                good = (c == 0)
            else:
                good = c in (ERROR, FATAL)
            if not good:
                okret = False
                badret = r
        ctx.instance(R, okret, badret or f, name + ':fail-status',
                     '%s: a path that fails an argument check must return an error status (false for of_is_decoding_complete)' % name)
        st_bad = None
        for i in f.all_insts():
            if i.op == 'store':
                a = tt.term(i.ops[1])
                if a[0] == 'field' and a[1] == ('param', 0):
                    st_bad = i
            if i.op == 'call' and i.callee and not f.bdom(swb, i.block) and prog.callee_fn(i) is not None:
                if i.callee not in ('of_free',):
                    st_bad = i
        ctx.instance(R, st_bad is None, st_bad or f, name + ':fail-pure',
                     '%s must not modify the session outside the dispatched call' % name)
    # encoders
    for fname, nfield in (('of_rs_build_repair_symbol', 'nb_encoding_symbols'),
                          ('of_rs_2_m_build_repair_symbol', 'nb_encoding_symbols'),
                          ('of_ldpc_staircase_build_repair_symbol', 'nb_total_symbols'),
                          ('of_2d_parity_build_repair_symbol', 'nb_total_symbols')):
        if which is not None and fname not in which:
            continue
        f = prog.need_fn(fname, R)
        tt = Terms(f)
        # every use of esi (param 2) as an array index / callee argument must be guarded by k <= esi < n
        uses = []
        for i in f.all_insts():
            if i.op == 'getelementptr':
                for st in i.path:
                    if 'idxv' in st and _mentions(tt.term(st['idxv']), ('param', 2)):
                        uses.append(i)
            elif i.op == 'call' and prog.callee_fn(i) is not None:
                if any(_mentions(tt.term(a), ('param', 2)) for a in i.args):
                    uses.append(i)
        ctx.need(uses, R, '%s: the ESI parameter is not used as an index any more' % fname)
        for u in uses:
            atoms = atoms_at(f, tt, u.block)
            lo = any(a[0] == 'cmp' and a[1] in ('uge',) and a[2] == ('param', 2) and _is_field(a[3], 'nb_source_symbols')
                     or a[0] == 'cmp' and a[1] in ('ule',) and a[3] == ('param', 2) and _is_field(a[2], 'nb_source_symbols')
                     for a in atoms)
            hi = any(a[0] == 'cmp' and a[1] == 'ult' and a[2] == ('param', 2) and _is_n(a[3], nfield)
                     or a[0] == 'cmp' and a[1] == 'ugt' and a[3] == ('param', 2) and _is_n(a[2], nfield)
                     for a in atoms)
            ctx.instance(R, lo and hi, u, '%s:esi-range' % fname,
                         '%s uses esi_of_symbol_to_build without the dominating check nb_source_symbols <= esi < %s (lower %s, upper %s)'
                         % (fname, nfield, lo, hi))


def _mentions(t, x):
    if t == x:
        return True
    if isinstance(t, tuple):
        return any(_mentions(y, x) for y in t[1:] if isinstance(y, tuple))
    return False


def _is_field(t, name):
    return t[0] in ('load', 'load@') and t[1][0] == 'field' and t[1][2] == name and t[1][1] == ('param', 0)


def _is_n(t, nfield):
    if _is_field(t, nfield):
        return True
    if t[0] == 'bin' and t[1] == 'add':
        names = set()
        for x in (t[2], t[3]):
            if x[0] in ('load', 'load@') and x[1][0] == 'field' and x[1][1] == ('param', 0):
                names.add(x[1][2])
        return names == set(['nb_source_symbols', 'nb_repair_symbols'])
    return False


def r_retdef(ctx, prog, which=None):
    R = 'R-RETDEF'
    ctx.rule(R, 'no path of the scoped API functions returns an undefined status', floor=1)
    for name in sorted(DISPATCH_GUARDS):
        if which is not None and name not in which:
            continue
        f = prog.need_fn(name, R)
        bad = [r for v, chain, r in ret_sources(f) if v is not None and strip_casts(v).k == 'undef']
        ctx.instance(R, not bad, bad[0] if bad else f, name + ':undef', '%s may return an uninitialised status' % name)
