"""Rules about the iterative (peeling) decoder's state discipline, motivated by independently seeded changes (round 4):

R-SYMTAB-WRITERS  only the decoders write the decoder's symbol table: a non-NULL store into encoding_symbols_tab[] occurs only in
                  the iterative decoder and the ML routines, which keep the per-equation counters in step with it.
R-IT-REGISTER     inside the iterative decoder the new symbol is registered in encoding_symbols_tab[esi] before any equation
                  counter is touched and before any recursive submission (the cascade reads the table to find the last unknown
                  symbol of an equation).
R-COPY-SCALE      a block copy into an array of multi-byte elements has a length that is scaled by the element size.
"""
from .ir import Terms, strip_casts, const_of, show, norm_atom
from .effects import addr_root
from .rules_decode import IT, ML

SIMPL = 'of_linear_binary_code_simplify_linear_system_with_a_symbol'
SYMTAB_WRITERS = (IT, ML, SIMPL)


def r_symtab_writers(ctx, prog):
    R = 'R-SYMTAB-WRITERS'
    ctx.rule(R, 'a symbol is entered into the linear-binary decoders\' encoding_symbols_tab[] only by the iterative decoder and the ML '
             'routines (which update the equation counters with it); other functions only clear slots', floor=1)
    n = 0
    for f in prog.all_functions:
        tt = Terms(f)
        for i in f.all_insts():
            if i.op != 'store':
                continue
            a = tt.term(i.ops[1])
            r = addr_root(a)
            if not r or r[0] != 'elems' or r[1] != 'encoding_symbols_tab':
                continue
            # the control block's own table (a member), not a table passed by the application
            if not (a[0] == 'elem' and a[1][0] in ('load', 'load@') and a[1][1][0] == 'field'):
                continue
            n += 1
            isnull = const_of(i.ops[0]) == 0
            ok = isnull or f.name in SYMTAB_WRITERS
            ctx.instance(R, ok, i, 'symtab-store:%s' % f.name,
                         '%s enters a symbol into encoding_symbols_tab[] itself instead of submitting it to the decoder: the '
                         'per-equation unknown counters are not updated, so that equation can never rebuild its last symbol' % f.name)
    ctx.need(n >= 4, R, 'stores into encoding_symbols_tab not recognised')


def r_it_register(ctx, prog):
    R = 'R-IT-REGISTER'
    ctx.rule(R, 'in the iterative decoder every update of an equation counter and every recursive submission is preceded, on every '
             'path, by the registration of the new symbol in encoding_symbols_tab[new_symbol_esi]', floor=1)
    f = prog.need_fn(IT, R)
    tt = Terms(f)

    def strip(t):
        while isinstance(t, tuple) and t[0] == 'trunc':
            t = t[2]
        return t
    reg = []
    events = []
    for i in f.all_insts():
        if i.op == 'store':
            a = tt.term(i.ops[1])
            r = addr_root(a)
            if r and r[0] == 'elems' and a[0] == 'elem':
                if r[1] == 'encoding_symbols_tab' and strip(a[2]) == ('param', 2) and const_of(i.ops[0]) != 0:
                    reg.append(i)
                elif r[1] == 'tab_nb_unknown_symbols':
                    events.append((i, 'updates the unknown-symbol counter of an equation'))
        elif i.op == 'call' and i.callee == IT:
            events.append((i, 'submits a rebuilt symbol recursively'))
    ctx.need(reg, R, 'registration of the new symbol not found')
    ctx.need(events, R, 'no counter update / recursive call found')
    cut = set()
    for s in reg:
        for s2 in s.block.succs:
            cut.add((s.block.id, s2.id))
    reach = f.reachable(f.entry, removed=cut)
    regblocks = set(s.block.id for s in reg)
    for i, what in events:
        # reachable without passing a registration block's exit, and not inside a registration block after the store
        bad = i.block.id in reach and not (i.block.id in regblocks and
                                           any(s.block.id == i.block.id and s.block.insts.index(s) < i.block.insts.index(i) for s in reg))
        ctx.instance(R, not bad, i, 'it-register:%s' % i.loc().split(':')[-1],
                     'the iterative decoder %s on a path on which the new symbol is not yet registered in encoding_symbols_tab[]: the '
                     'cascade still sees it as unknown, so an equation that reaches degree one there is never used' % what)


def _pointee_size(v):
    """size in bytes of the elements the pointer operand points to before it was cast to i8* (None when unknown / 1)"""
    # the operand is `bitcast T* to i8*`: T is the element type the source wrote (one level only: an allocation's own i8* says
    # nothing)
    if v.k == 'i' and v.inst.op == 'bitcast':
        v = v.inst.ops[0]
    ty = v.inst.ty if v.k == 'i' else getattr(v, 'ty', None)
    if not ty or not ty.endswith('*'):
        return None
    el = ty[:-1]
    if el.endswith('*'):
        return 8
    if el in ('i16',):
        return 2
    if el in ('i32', 'float'):
        return 4
    if el in ('i64', 'double'):
        return 8
    return None


def _multiple_of(t, s, depth=0):
    if depth > 6 or not isinstance(t, tuple):
        return False
    if t[0] == 'const':
        return t[1] % s == 0
    if t[0] == 'trunc':
        return _multiple_of(t[2], s, depth + 1)
    if t[0] == 'bin':
        if t[1] == 'mul':
            return _multiple_of(t[2], s, depth + 1) or _multiple_of(t[3], s, depth + 1)
        if t[1] == 'shl' and t[3][0] == 'const':
            return (1 << t[3][1]) % s == 0 or _multiple_of(t[2], s, depth + 1)
        if t[1] in ('add', 'sub'):
            return _multiple_of(t[2], s, depth + 1) and _multiple_of(t[3], s, depth + 1)
    return False


def r_copy_scale(ctx, prog, units=None):
    R = 'R-COPY-SCALE'
    ctx.rule(R, 'every block copy whose destination is an array of multi-byte elements has a byte count that is a multiple of the '
             'element size (a count of elements passed as a count of bytes copies only a fraction of the array)', floor=1)
    n = 0
    reach = None
    if units == 'api':
        from .rules_own import api_reachable
        reach = set(id(g) for g in api_reachable(prog))
    for f in prog.all_functions:
        if reach is not None:
            if id(f) not in reach:
                continue
        elif units is not None and f.unit.name not in units:
            continue
        tt = Terms(f)
        for c in f.calls():
            if c.callee in ('memset', 'bzero'):
                # filling an array of multi-byte elements: same obligation on the byte count
                dst = c.args[0]
                ln = c.args[1] if c.callee == 'bzero' else c.args[2]
                s = _pointee_size(dst)
                if s is None or s == 1:
                    continue
                n += 1
                t = tt.term(ln)
                ctx.instance(R, _multiple_of(t, s), c, 'fill:%s:%s' % (f.name, c.loc().split(':')[-1]),
                             '%s fills %s bytes of an array of %d-byte elements: the length is not scaled by the element size' %
                             (f.name, show(t)[:40], s))
                continue
            if c.callee not in ('memcpy', 'memmove', 'bcopy'):
                continue
            dst, src, ln = (c.args[1], c.args[0], c.args[2]) if c.callee == 'bcopy' else (c.args[0], c.args[1], c.args[2])
            s = _pointee_size(dst)
            s2 = _pointee_size(src)
            if s is None or s2 is None or s != s2:
                continue
            n += 1
            t = tt.term(ln)
            ctx.instance(R, _multiple_of(t, s), c, 'copy:%s:%s' % (f.name, c.loc().split(':')[-1]),
                         '%s copies %s bytes between arrays of %d-byte elements: the length is not scaled by the element size' %
                         (f.name, show(t)[:40], s))
    if n == 0:
        ctx.ok(R, None, 'copy:none', 'no block copy or fill of an array of multi-byte elements in scope')


def r_it_degree_only(ctx, prog):
    """Peeling is driven by the degree of an equation alone: whether an equation gets its partial sum and whether it is registered
    as "degree one" may depend on that equation's own counters and partial sum (and on allocation results), never on a scalar
    member of the session (how many symbols of some kind have been received so far, ...) -- otherwise the closure reached depends
    on the arrival order."""
    from .ir import atoms_at
    R = 'R-IT-DEGREE-ONLY'
    ctx.rule(R, 'in the iterative decoder the creation of an equation\'s partial sum and its registration as a degree-one equation are '
             'guarded by that equation\'s own counters only, not by session-wide scalar members', floor=1)
    f = prog.need_fn(IT, R)
    tt = Terms(f)
    sites = []
    for i in f.all_insts():
        if i.op != 'store':
            continue
        a = tt.term(i.ops[1])
        v = tt.term(i.ops[0])
        r = addr_root(a)
        if r and r[0] == 'elems' and r[1] == 'tab_const_term_of_equ' and v[0] == 'call':
            sites.append((i, 'creates the partial sum of an equation'))
        elif a[0] == 'elem' and a[1][0] in ('phi', 'call') and v[0] in ('load', 'load@') and v[1][0] == 'field' and v[1][2] == 'row':
            sites.append((i, 'registers an equation as degree one'))
    ctx.need(len(sites) >= 2, R, 'partial-sum creation / degree-one registration not recognised')

    def scalar_member(t):
        return isinstance(t, tuple) and t[0] in ('load', 'load@') and t[1][0] == 'field' and t[1][1] == ('param', 0)

    def mentions_scalar(t):
        if scalar_member(t):
            return t[1][2]
        if isinstance(t, tuple) and t[0] in ('bin', 'trunc', 'cmp'):
            for x in t[1:]:
                if isinstance(x, tuple):
                    m = mentions_scalar(x)
                    if m:
                        return m
        return None
    for i, what in sites:
        bad = None
        # only what is decided inside the loop over the symbol's equations counts (entry assertions and the step-0 test dominate
        # the whole loop and are not conditions of the peeling)
        outer = None
        for lp in f.loops.values():
            if i.block.id in lp.blocks and lp.depth == 1:
                outer = lp
        before = [norm_atom(x) for x in atoms_at(f, tt, outer.header)] if outer is not None else []
        for at in atoms_at(f, tt, i.block):
            if at[0] != 'cmp' or norm_atom(at) in before:
                continue
            m = mentions_scalar(at[2]) or mentions_scalar(at[3])
            if m:
                bad = m
        ctx.instance(R, bad is None, i, 'degree-only:%s' % i.loc().split(':')[-1],
                     'the iterative decoder %s only when a condition on the session member %s holds: an equation that reaches degree '
                     'one while it does not is never used, so the symbols recovered depend on the arrival order' % (what, bad))
