"""Rule-instance bookkeeping, verdicts, evidence and known findings (DESIGN.md §2)."""
import json
import os
import time

from .pdb import VERIF, AnalysisBroken, repo_root


class Finding(object):
    def __init__(self, prop, rule, function, key, msg, loc):
        self.prop = prop
        self.rule = rule
        self.function = function
        self.key = key
        self.msg = msg
        self.loc = loc

    def ident(self):
        return (self.prop, self.rule, self.function, self.key)

    def as_dict(self):
        return {'property': self.prop, 'rule': self.rule, 'function': self.function,
                'key': self.key, 'what': self.msg, 'location': self.loc}


class Ctx(object):
    """Collects rule instances for one property check."""

    def __init__(self, prop, tier, seed):
        self.prop = prop
        self.tier = tier
        self.seed = seed
        self.t0 = time.time()
        self.rules = {}          # rule -> dict(instances, failed, floor, what)
        self.broken_rules = []   # (rule, reason) of rules that could not recognise their anchors
        self.constructs = set()  # distinct (rule, function, key)
        self.samples = []
        self.findings = []
        self.configs = []
        self.notes = []
        self.units = 0
        self.functions = 0
        self.assumptions = []
        self.exhaustive_rules = []
        self.decides = []
        self.not_decided = []

    # -- registration
    def rule(self, rule, what, floor=1):
        r = self.rules.setdefault(rule, {'instances': 0, 'failed': 0, 'floor': floor, 'what': what})
        r['floor'] = max(r['floor'], floor)
        r['what'] = what
        return r

    def _where(self, where):
        fn = None
        loc = None
        if where is None:
            return '-', '-'
        if hasattr(where, 'fn') and hasattr(where, 'loc'):   # Inst
            return where.fn.name, where.loc()
        if hasattr(where, 'blocks'):                          # Function
            f = (where.file or '?').replace(repo_root().rstrip('/') + '/', '')
            return where.name, '%s:%s' % (f, where.line)
        if isinstance(where, tuple):
            return where
        return str(where), '-'

    def ok(self, rule, where, key, msg=None):
        self.instance(rule, True, where, key, msg)

    def fail(self, rule, where, key, msg):
        self.instance(rule, False, where, key, msg)

    def instance(self, rule, ok, where, key, msg=None):
        r = self.rules.setdefault(rule, {'instances': 0, 'failed': 0, 'floor': 1, 'what': ''})
        r['instances'] += 1
        fn, loc = self._where(where)
        self.constructs.add((rule, fn, key))
        if len(self.samples) < 400:
            self.samples.append({'rule': rule, 'function': fn, 'at': loc, 'instance': key,
                                 'verdict': 'holds' if ok else 'VIOLATED',
                                 ('requirement' if ok else 'finding'): msg or ''})
        if not ok:
            r['failed'] += 1
            self.findings.append(Finding(self.prop, rule, fn, key, msg or '', loc))

    def bulk(self, rule, n, constructs=0):
        """n further instances that held, not written out one by one (table entries)."""
        r = self.rules.setdefault(rule, {'instances': 0, 'failed': 0, 'floor': 1, 'what': ''})
        r['instances'] += n
        for i in range(constructs):
            self.constructs.add((rule, 'bulk', len(self.constructs)))

    def broken(self, rule, reason):
        raise AnalysisBroken(rule, reason)

    def need(self, cond, rule, reason):
        if not cond:
            raise AnalysisBroken(rule, reason)

    def use_program(self, prog):
        self.configs.append(prog.config)
        self.units = max(self.units, len(prog.units))
        self.functions = max(self.functions, len(prog.all_functions))


def load_known():
    p = os.path.join(VERIF, 'known_findings.json')
    if not os.path.exists(p):
        return []
    d = json.load(open(p))
    return d.get('findings', [])


def finish(ctx, explanation, decides, not_decided, exhaustive=False, extra=None):
    """Apply floors and known findings, write evidence, print verdict lines; returns exit code."""
    fl = {}
    fp = os.path.join(VERIF, 'ofverif', 'floors.json')
    if os.path.exists(fp) and not os.environ.get('OFVERIF_FREEZING'):      # (set only by tools/freeze_floors.py and during rule development)
        fl = json.load(open(fp)).get(ctx.prop, {}).get(ctx.tier, {})
    floor_problem = None
    for rule, need in fl.items():
        if rule not in ctx.rules:
            floor_problem = (rule, 'rule produced no instance at all (frozen floor %d)' % need)
    for rule, r in sorted(ctx.rules.items()):
        r['floor'] = max(r['floor'], fl.get(rule, 0))
        if r['instances'] < r['floor'] and not r['failed']:
            floor_problem = (rule, 'matched %d instances, floor confirmed by reading is %d (the code this rule is anchored in was '
                             'restructured or the rule no longer recognises it)' % (r['instances'], r['floor']))
    known = load_known()
    kidx = {}
    for k in known:
        kidx[(k['property'], k['rule'], k['function'], k['key'])] = k
    new = []
    listed = []
    for f in ctx.findings:
        k = kidx.get(f.ident())
        if k is not None:
            listed.append((f, k))
        else:
            new.append(f)
    seen = set()
    for f, k in listed:
        if f.ident() in seen:
            continue
        seen.add(f.ident())
        print('KNOWN-FINDING: property=%s %s [%s in %s at %s]' % (f.prop, k.get('what', f.msg), f.rule,
                                                                  f.function, f.loc))
    if ctx.broken_rules and not new:
        raise AnalysisBroken(ctx.broken_rules[0][0], ctx.broken_rules[0][1])
    for br in ctx.broken_rules:
        ctx.notes.append('rule %s could not be evaluated (%s); reported violations come from the other rules' % br)
    if floor_problem is not None and not new:
        # nothing was found, but a rule saw (much) less code than it was frozen on: that is not a pass
        raise AnalysisBroken(floor_problem[0], floor_problem[1])
    rdir = os.environ.get('OFVERIF_REPLAY_DIR') or os.path.join(VERIF, 'replay')
    n = 0
    for f in new:
        os.makedirs(rdir, exist_ok=True)
        n += 1
        path = os.path.join(rdir, '%s-%s-%d.json' % (ctx.prop, ctx.tier, n))
        d = f.as_dict()
        d['tier'] = ctx.tier
        d['explain'] = 'cd /verif && ./check --explain %s' % path
        json.dump(d, open(path, 'w'), indent=1)
        print('%s: %s: %s: %s -- %s' % (f.loc, f.rule, f.function, f.key, f.msg))
        print('VIOLATION property=%s replay=%s' % (ctx.prop, path))
    wall = time.time() - ctx.t0
    per_rule = dict((r, {'instances': v['instances'], 'violated': v['failed'], 'floor': v['floor'],
                         'decides': v['what']}) for r, v in ctx.rules.items())
    total = sum(v['instances'] for v in ctx.rules.values())
    cov = {
        'explanation': explanation,
        'evaluations': total,
        'distinct_nontrivial': len(ctx.constructs),
        'rule': 'one evaluation = one rule instance (a rule applied to one program construct: call site, '
                'store, loop, struct member, path, table entry) found in the IR of the current /repo; '
                'distinct = distinct (rule, function, construct) triples; every instance is non-trivial in '
                'that it names a construct of the compiled library, never a synthetic case',
        'samples': ctx.samples[:60],
        'per_rule': per_rule,
        'decides': decides,
        'does_not_decide': not_decided,
        'configurations': sorted(set(ctx.configs)),
        'translation_units': ctx.units,
        'functions_in_program': ctx.functions,
        'exhaustive': bool(exhaustive),
        'known_findings_matched': len(seen),
        'repo': repo_root(),
    }
    if extra:
        cov.update(extra)
    ev = {
        'property_id': ctx.prop,
        'tier': ctx.tier,
        'seed': ctx.seed,
        'level': 'other',
        'coverage': cov,
        'assumptions': ctx.assumptions + [
            'clang 14 -O0 IR of each library unit (same -D/-I flags as the project build) means what the C source means',
            'the application follows the documented protocol (valid session pointers, buffers of encoding_symbol_length bytes, tables of n resp. k entries)',
            'code excluded by the project\'s own preprocessor configuration is not analysed (covers what the build covers)',
        ],
        'wall_s': round(wall, 2),
        'violations': len(new),
    }
    edir = os.environ.get('OFVERIF_EVIDENCE_DIR') or os.path.join(VERIF, 'evidence')
    os.makedirs(edir, exist_ok=True)
    tmp = os.path.join(edir, '.%s.json.tmp' % ctx.prop)
    json.dump(ev, open(tmp, 'w'), indent=1)
    os.rename(tmp, os.path.join(edir, '%s.json' % ctx.prop))
    summary = ', '.join('%s %d/%d' % (r, v['instances'] - v['failed'], v['instances'])
                        for r, v in sorted(ctx.rules.items()))
    print('%s %s: %d rule instances over %d constructs (%s); %d known, %d new violations; %.1fs' %
          (ctx.prop, ctx.tier, total, len(ctx.constructs), summary, len(seen), len(new), wall))
    return 1 if new else 0
