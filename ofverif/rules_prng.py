"""PRNG rules for C19/C05/C12: R-SEEDRANGE, R-PRNG-EFFECT, R-PRNG-STEP, R-FPSCALE, R-SRAND-DOM.

R-PRNG-STEP is an abstract interpretation of the loop-free state update of of_rfc5170_rand in the
product domain (linear form over split atoms) x (unsigned interval).  It proves, for *every* state
s in [1, P-1], that the stored next state is A*s mod P, by congruence reasoning (2^k*hi_k(x) + lo_k(x) = x)
rather than by enumerating states, and reads A and P from the IR (compared with the property's 16807
and 2^31-1).
"""
from fractions import Fraction

from .ir import Terms, strip_casts, const_of, atoms_at, show

U64 = (1 << 64) - 1


# ---------------------------------------------------------------- intervals from guards
def interval_from_atoms(atoms, term, lo=0, hi=U64):
    """Unsigned interval of `term` implied by atoms of the form (term pred const)."""
    ne = set()
    for a in atoms:
        if a[0] != 'cmp':
            continue
        pred, x, y = a[1], a[2], a[3]
        if y == term and x[0] == 'const':
            from .ir import SWAP
            pred, x, y = SWAP[pred], y, x
        if x != term or y[0] != 'const':
            continue
        c = y[1]
        if c < 0:
            c += 1 << 64
        if pred in ('uge', 'sge'):
            lo = max(lo, c)
        elif pred in ('ugt', 'sgt'):
            lo = max(lo, c + 1)
        elif pred in ('ule', 'sle'):
            hi = min(hi, c)
        elif pred in ('ult', 'slt'):
            hi = min(hi, c - 1)
        elif pred == 'eq':
            lo = max(lo, c)
            hi = min(hi, c)
        elif pred == 'ne':
            ne.add(c)
    changed = True
    while changed:
        changed = False
        if lo in ne:
            lo += 1
            changed = True
        if hi in ne:
            hi -= 1
            changed = True
    return lo, hi


def r_seedrange(ctx, prog):
    R = 'R-SEEDRANGE'
    ctx.rule(R, 'of_rfc5170_srand stores its argument into of_seed exactly when it lies in [1, 2^31-2]; on every other path the '
             'state is left untouched', floor=1)
    f = prog.need_fn('of_rfc5170_srand', R)
    tt = Terms(f, forward=False)
    stores = [i for i in f.all_insts() if i.op == 'store' and tt.term(i.ops[1]) == ('global', 'of_seed')]
    ctx.need(len(stores) >= 1, R, 'of_rfc5170_srand no longer stores to of_seed')
    for s in stores:
        v = tt.term(s.ops[0])
        if v != ('param', 0):
            ctx.fail(R, s, 'srand:value', 'of_seed receives %s, not the seed argument' % show(v))
            continue
        atoms = atoms_at(f, tt, s.block)
        lo, hi = interval_from_atoms(atoms, ('param', 0))
        ok = (lo, hi) == (1, 0x7FFFFFFE)
        ctx.instance(R, ok, s, 'srand:range',
                     'the store to of_seed is guarded by s in [%d, %d]; RFC 5170 / the property require exactly [1, 2147483646]' % (lo, hi))
    # any other store in the function (to anything global) would be an unexpected effect
    others = [i for i in f.all_insts() if i.op == 'store' and i not in stores]
    ctx.instance(R, not others, f, 'srand:effects', 'of_rfc5170_srand writes something other than of_seed')
    # the accepting path must exist from entry: the store block is reachable (trivial) and no call writes the seed
    for c in f.calls():
        if c.callee not in ('fprintf', 'printf', 'fflush'):
            ctx.fail(R, c, 'srand:call', 'of_rfc5170_srand calls %s' % c.callee)


# ---------------------------------------------------------------- abstract step
class Lin(object):
    """Integer-coefficient linear form over atoms + constant, with an unsigned interval."""

    def __init__(self, coef=None, const=0, lo=0, hi=0):
        self.coef = dict((k, v) for k, v in (coef or {}).items() if v != 0)
        self.const = const
        self.lo = lo
        self.hi = hi

    def key(self):
        return (tuple(sorted(self.coef.items())), self.const)

    def add(self, o, sign=1):
        c = dict(self.coef)
        for k, v in o.coef.items():
            c[k] = c.get(k, 0) + sign * v
        if sign == 1:
            return Lin(c, self.const + o.const, self.lo + o.lo, self.hi + o.hi)
        return Lin(c, self.const - o.const, self.lo - o.hi, self.hi - o.lo)

    def scale(self, n):
        return Lin(dict((k, v * n) for k, v in self.coef.items()), self.const * n, self.lo * n, self.hi * n)

    def is_const(self):
        return not self.coef

    def __repr__(self):
        parts = ['%d*%s' % (v, k) for k, v in sorted(self.coef.items())]
        if self.const or not parts:
            parts.append(str(self.const))
        return ' + '.join(parts) + ' in [%d,%d]' % (self.lo, self.hi)


class StepAnalysis(object):
    """Evaluates the SSA DAG feeding the store to of_seed."""

    def __init__(self, fn, seed_lo, seed_hi):
        self.fn = fn
        self.memo = {}
        self.atoms = {}      # atom name -> ('hi'|'lo', k, Lin of x)
        self.seed = (seed_lo, seed_hi)
        self.modulus = None
        self.notes = []
        self.max_hi = 0
        self.unknown = None

    def atom(self, kind, k, x):
        # normalise hi_a(hi_b(y)) = hi_{a+b}(y)
        if kind == 'hi' and len(x.coef) == 1 and x.const == 0:
            (n, c), = x.coef.items()
            a = self.atoms.get(n)
            if a and a[0] == 'hi' and c == 1:
                return self.atom('hi', k + a[1], a[2])
        name = '%s%d(%s)' % (kind, k, repr(x.key()))
        short = '%s%d#%d' % (kind, k, len(self.atoms))
        for n, a in self.atoms.items():
            if a[3] == name:
                return n
        self.atoms[short] = (kind, k, x, name)
        return short

    def ev(self, v):
        c = const_of(v) if v.k in ('c', 'null') else None
        if v.k == 'c':
            u = v.u if v.u is not None else v.v
            return Lin({}, u, u, u)
        if v.k != 'i':
            self.unknown = 'operand %r' % v
            return None
        i = v.inst
        if i.id in self.memo:
            return self.memo[i.id]
        r = self._ev(i)
        if r is not None:
            self.max_hi = max(self.max_hi, r.hi)
        self.memo[i.id] = r
        return r

    def _ev(self, i):
        op = i.op
        if op == 'load':
            if i.ops[0].k == 'g' and i.ops[0].name == 'of_seed':
                return Lin({'s': 1}, 0, self.seed[0], self.seed[1])
            self.unknown = 'load of %r at %s' % (i.ops[0], i.loc())
            return None
        if op in ('zext', 'bitcast'):
            return self.ev(i.ops[0])
        if op in ('add', 'sub', 'mul', 'and', 'lshr', 'shl', 'urem'):
            a = self.ev(i.ops[0])
            b = self.ev(i.ops[1])
            if a is None or b is None:
                return None
            if op == 'add':
                return a.add(b)
            if op == 'sub':
                a = self.refine(i, i.ops[0], a)
                r = a.add(b, -1)
                if r.lo < 0:
                    self.unknown = 'possible unsigned underflow at %s' % i.loc()
                    return None
                return r
            if op == 'mul':
                if b.is_const():
                    a, b = b, a
                if not a.is_const():
                    self.unknown = 'non-linear product at %s' % i.loc()
                    return None
                return b.scale(a.const)
            if op == 'shl':
                if not b.is_const():
                    self.unknown = 'variable shift'
                    return None
                return a.scale(1 << b.const)
            if op == 'and':
                if a.is_const():
                    a, b = b, a
                if not b.is_const() or (b.const & (b.const + 1)) != 0:
                    self.unknown = 'and with a non-mask at %s' % i.loc()
                    return None
                k = b.const.bit_length()
                if a.hi <= b.const:
                    return a
                n = self.atom('lo', k, a)
                return Lin({n: 1}, 0, 0, min(b.const, a.hi))
            if op == 'lshr':
                if not b.is_const():
                    self.unknown = 'variable shift'
                    return None
                k = b.const
                if a.is_const():
                    c = a.const >> k
                    return Lin({}, c, c, c)
                n = self.atom('hi', k, a)
                return Lin({n: 1}, 0, a.lo >> k, a.hi >> k)
            if op == 'urem':
                if not b.is_const() or b.const <= 0:
                    self.unknown = 'urem by non-constant'
                    return None
                if self.modulus not in (None, b.const):
                    self.unknown = 'two different moduli'
                    return None
                self.modulus = b.const
                self.notes.append('reduction by urem %d at %s' % (b.const, i.loc()))
                self.reduced_full = True
                return Lin(a.coef, a.const, 0, b.const - 1)
        if op == 'phi':
            return self._phi(i)
        self.unknown = 'operation %s at %s' % (op, i.loc())
        return None

    def refine(self, at, v, lin):
        """Tighten the interval of `lin` (value of operand v) with the branch guards dominating instruction `at`."""
        from .ir import guards_at
        lo, hi = lin.lo, lin.hi
        for bb, s, lab in guards_at(at.fn, at.block):
            if lab[0] != 'br':
                continue
            ci = strip_casts(lab[1])
            if ci.k != 'i' or ci.inst.op != 'icmp':
                continue
            l = self.ev(ci.inst.ops[0])
            r = self.ev(ci.inst.ops[1])
            if l is None or r is None or l.key() != lin.key() or not r.is_const():
                continue
            from .ir import NEG
            pred = ci.inst.pred if lab[2] else NEG[ci.inst.pred]
            c = r.const
            if pred == 'ugt':
                lo = max(lo, c + 1)
            elif pred == 'uge':
                lo = max(lo, c)
            elif pred == 'ult':
                hi = min(hi, c - 1)
            elif pred == 'ule':
                hi = min(hi, c)
        return Lin(lin.coef, lin.const, lo, hi)

    def _phi(self, i):
        # recognise  x' = (x > C) ? x - C : x   (conditional subtraction of the modulus)
        if len(i.incoming) != 2:
            self.unknown = 'phi with %d inputs' % len(i.incoming)
            return None
        vals = [self.ev(v) for _, v in i.incoming]
        if None in vals:
            return None
        a, b = vals
        d = a.add(b, -1)
        if d.coef:
            self.unknown = 'phi inputs differ by a non-constant'
            return None
        C = abs(d.const)
        if C == 0:
            return a
        big, small = (b, a) if d.const < 0 else (a, b)   # small = big - C
        # the branch that selects: find the compare
        sub_idx = 0 if small is a else 1
        sub_block = i.fn.bmap[i.incoming[sub_idx][0]]
        keep_block = i.fn.bmap[i.incoming[1 - sub_idx][0]]
        from .ir import guards_at, cond_atoms
        tt = Terms(i.fn, forward=False)
        thr = None
        for bb, s, lab in guards_at(i.fn, sub_block):
            if lab[0] != 'br':
                continue
            for at in cond_atoms(tt, lab[1], lab[2]):
                if at[0] == 'cmp' and at[3][0] == 'const':
                    # compare on the un-subtracted value
                    x = lab[1]
                    ci = strip_casts(x)
                    if ci.k == 'i' and ci.inst.op == 'icmp':
                        lhs = self.ev(ci.inst.ops[0])
                        if lhs is not None and lhs.key() == big.key():
                            thr = (at[1], at[3][1])
        if thr is None:
            self.unknown = 'conditional subtraction without a recognisable threshold test'
            return None
        pred, c = thr
        if pred == 'ugt':
            first = c + 1
        elif pred == 'uge':
            first = c
        else:
            self.unknown = 'threshold predicate %s' % pred
            return None
        if self.modulus not in (None, C):
            self.unknown = 'two different moduli'
            return None
        self.modulus = C
        self.cond_sub = {'threshold_first_subtracted': first, 'C': C, 'pre_hi': big.hi, 'pre_lo': big.lo}
        if first < C:
            self.unknown = None
            self.bad_threshold = 'subtracts %d from values as small as %d: unsigned underflow' % (C, first)
        lo = 0 if big.lo < first else big.lo - C
        hi = max(min(big.hi, first - 1), big.hi - C)
        self.notes.append('conditional subtraction of %d for values >= %d' % (C, first))
        return Lin(big.coef, big.const, max(0, min(big.lo, lo)), hi)

    def eliminate(self, lin):
        """Substitute lo_k(x) = x - 2^k*hi_k(x) until no lo atoms remain."""
        for _ in range(64):
            los = [n for n in lin.coef if self.atoms.get(n, ('',))[0] == 'lo']
            if not los:
                return lin
            n = los[0]
            kind, k, x, name = self.atoms[n]
            c = lin.coef[n]
            hn = self.atom('hi', k, x)
            rest = Lin(dict((a, b) for a, b in lin.coef.items() if a != n), lin.const, lin.lo, lin.hi)
            sub = x.scale(c).add(Lin({hn: c * (1 << k)}), -1)
            # expanding x may itself contain lo atoms
            rest = rest.add(Lin(sub.coef, sub.const))
            rest.lo, rest.hi = lin.lo, lin.hi
            lin = rest
        return lin


def _concrete_eval(fn, store, s):
    """Evaluate the (loop-free) expression DAG that feeds `store` at the concrete state s, on 64-bit
    unsigned arithmetic.  Used only to turn a failed proof into a witness, never to pass."""
    memo = {}

    def ev(v, came_from=None):
        if v.k == 'c':
            return v.u if v.u is not None else v.v & U64
        i = v.inst
        if i.id in memo:
            return memo[i.id]
        op = i.op
        if op == 'load':
            r = s
        elif op in ('zext', 'bitcast'):
            r = ev(i.ops[0])
        elif op == 'phi':
            # choose the incoming whose guard holds: evaluate guards concretely
            r = None
            for bid, x in i.incoming:
                if _edge_taken(fn, fn.bmap[bid], i.block, ev):
                    r = ev(x)
            if r is None:
                raise ValueError('phi')
        else:
            a = ev(i.ops[0])
            b = ev(i.ops[1])
            r = {'add': a + b, 'sub': a - b, 'mul': a * b, 'and': a & b, 'or': a | b, 'xor': a ^ b,
                 'lshr': a >> (b & 63), 'shl': a << (b & 63),
                 'urem': a % b if b else 0, 'udiv': a // b if b else 0}[op] & U64
        memo[i.id] = r
        return r

    def _edge_taken(fn, src, dst, ev):
        # src reached and its terminator goes to dst under the concrete state: walk back from dst
        # (the function is a DAG with one diamond; determine reachability by evaluating branches from entry)
        cur = fn.entry
        for _ in range(1000):
            if cur is src:
                t = cur.term()
                if t.op == 'br' and len(t.ops) == 3:
                    c = evcond(t.ops[0])
                    nxt = cur.succs[0] if c else cur.succs[1]
                    return nxt is dst
                return dst in cur.succs
            t = cur.term()
            if t.op == 'br' and len(t.ops) == 3:
                cur = cur.succs[0] if evcond(t.ops[0]) else cur.succs[1]
            elif t.op == 'br':
                cur = cur.succs[0]
            else:
                return False
        return False

    def evcond(v):
        i = strip_casts(v).inst
        a = ev(i.ops[0])
        b = ev(i.ops[1])
        return {'ugt': a > b, 'uge': a >= b, 'ult': a < b, 'ule': a <= b, 'eq': a == b, 'ne': a != b}[i.pred]

    return ev(store.ops[0])


def r_prng_step(ctx, prog):
    R = 'R-PRNG-STEP'
    ctx.rule(R, 'abstract interpretation (linear forms mod P over split atoms x unsigned intervals) of the state update of '
             'of_rfc5170_rand: for every state s in [1, 2^31-2] the stored next state is 16807*s mod (2^31-1), lies in [1, 2^31-2], '
             'and no intermediate exceeds 64 bits', floor=1)
    f = prog.need_fn('of_rfc5170_rand', R)
    ctx.need(not f.loops, R, 'of_rfc5170_rand now contains a loop: the step analysis handles loop-free updates only')
    stores = [i for i in f.all_insts() if i.op == 'store' and i.ops[1].k == 'g' and i.ops[1].name == 'of_seed']
    ctx.need(len(stores) == 1, R, 'expected exactly one store to of_seed in of_rfc5170_rand, found %d' % len(stores))
    st = stores[0]
    P_REQ = 0x7FFFFFFF
    A_REQ = 16807
    an = StepAnalysis(f, 1, P_REQ - 1)
    res = an.ev(st.ops[0])
    if res is None:
        # cannot interpret: try to refute concretely, else cannot decide
        bad = _witness(f, st, A_REQ, P_REQ)
        if bad is not None:
            ctx.fail(R, st, 'step:value', 'from state %d the stored next state is %d, 16807*s mod (2^31-1) is %d' % bad)
            return None
        ctx.broken(R, 'state update not understood (%s) and no counterexample on the extracted expression' % an.unknown)
    lin = an.eliminate(res)
    P = an.modulus
    info = {'stored': repr(res), 'eliminated': repr(lin), 'modulus': P, 'notes': an.notes}
    if P is None:
        ctx.fail(R, st, 'step:modulus', 'the update performs no reduction modulo 2^31-1')
        return info
    ctx.instance(R, P == P_REQ, st, 'step:modulus', 'reduction modulus is %d, Park-Miller needs 2147483647' % P)
    if P != P_REQ:
        return info
    # congruence: all coefficients mod P; residual atoms must vanish
    coef = dict((k, v % P) for k, v in lin.coef.items())
    coef = dict((k, v) for k, v in coef.items() if v)
    const = lin.const % P
    residual = [k for k in coef if k != 's']
    if residual:
        bad = _witness(f, st, A_REQ, P_REQ)
        if bad is not None:
            ctx.fail(R, st, 'step:value', 'from state %d the stored next state is %d, 16807*s mod (2^31-1) is %d '
                     '(the split multiplication does not recombine: residual %s)' % (bad + (residual,)))
            return info
        ctx.broken(R, 'cannot prove the update congruent to A*s (residual atoms %s) and found no counterexample' % residual)
    A = coef.get('s', 0)
    ok = (A == A_REQ and const == 0)
    msg = 'next state is congruent to %d*s + %d (mod 2^31-1); Park-Miller minimal standard is 16807*s' % (A, const)
    ctx.instance(R, ok, st, 'step:multiplier', msg)
    # canonical residue: value before the conditional subtraction below 2P, threshold exactly P
    cs = getattr(an, 'cond_sub', None)
    if getattr(an, 'reduced_full', False):
        ctx.ok(R, st, 'step:canonical', 'reduced by urem: result in [0, P-1]')
        canonical = True
    elif cs is None:
        ctx.fail(R, st, 'step:canonical', 'no reduction step found')
        canonical = False
    else:
        bt = getattr(an, 'bad_threshold', None)
        canonical = (bt is None and cs['pre_hi'] < 2 * P and cs['threshold_first_subtracted'] in (P, P + 1))
        # ... and the conditional subtraction is the LAST step: nothing may be added to the reduced value before it is stored
        if canonical and res.hi > P:
            canonical = False
            bt = 'the stored value ranges up to %d: something is added after the reduction step' % res.hi
        ctx.instance(R, canonical, st, 'step:canonical',
                     'value before reduction ranges up to %d (must stay below 2P = %d) and P is subtracted for values >= %d '
                     '(must be P or P+1: residues 0 and P cannot occur because P is prime and 1 <= s < P)%s' %
                     (cs['pre_hi'], 2 * P, cs['threshold_first_subtracted'], '; ' + bt if bt else ''))
    ctx.instance(R, an.max_hi <= U64, st, 'step:overflow',
                 'largest intermediate value bound %d must fit 64 bits' % an.max_hi)
    info.update({'A': A, 'const': const, 'max_intermediate': an.max_hi, 'canonical': canonical})
    # the published check value follows from the proven recurrence by arithmetic on the extracted constants
    if ok and canonical:
        v = pow(A, 10000, P)
        ctx.instance(R, v == 1043618065, st, 'step:check-value',
                     'A^10000 mod P = %d (Park-Miller check value 1043618065) from the extracted A=%d, P=%d' % (v, A, P))
    return info


def _witness(f, st, A, P):
    import random
    rnd = random.Random(12345)
    cands = [1, 2, 3, 0xFFFF, 0x10000, 0x10001, 0x7FFF, 0x8000, P - 1, P - 2, 127773, 2836, 65535 * 2, 1 << 30,
             (1 << 30) + 1, 1043618065]
    # states whose successor is a boundary residue (solved with the *required* constants)
    inv = pow(A, P - 2, P)
    for t in (1, 2, P - 1, P - 2, P - 3, 0x7FFF0000 % P, 0xFFFF, 0x10000):
        cands.append((t * inv) % P or 1)
    cands += [rnd.randrange(1, P) for _ in range(4000)]
    for s in cands:
        try:
            got = _concrete_eval(f, st, s)
        except Exception:
            return None
        if got != (A * s) % P:
            return (s, got, (A * s) % P)
    return None


def r_prng_effect(ctx, prog):
    R = 'R-PRNG-EFFECT'
    ctx.rule(R, 'of_rfc5170_rand reads only of_seed and its argument, writes only of_seed, exactly once on every path, and calls nothing', floor=1)
    f = prog.need_fn('of_rfc5170_rand', R)
    stores = [i for i in f.all_insts() if i.op == 'store']
    seed_st = [i for i in stores if i.ops[1].k == 'g' and i.ops[1].name == 'of_seed']
    ctx.instance(R, len(stores) == len(seed_st), f, 'rand:writes', 'of_rfc5170_rand stores to something other than of_seed')
    once = len(seed_st) == 1 and all(f.bdom(seed_st[0].block, r.block) for r in f.rets())
    ctx.instance(R, once, f, 'rand:once', 'the state must be advanced exactly once on every path (one store to of_seed dominating every return)')
    bad = [i for i in f.all_insts() if i.op == 'load' and not (i.ops[0].k == 'g' and i.ops[0].name == 'of_seed')]
    ctx.instance(R, not bad, f, 'rand:reads', 'of_rfc5170_rand reads memory other than of_seed' + (' at %s' % bad[0].loc() if bad else ''))
    calls = [c for c in f.calls()]
    ctx.instance(R, not calls, f, 'rand:calls', 'of_rfc5170_rand calls %s' % (calls[0].callee if calls else ''))
    # who else writes of_seed in the program
    for fn in prog.all_functions:
        if fn.name in ('of_rfc5170_rand', 'of_rfc5170_srand'):
            continue
        for i in fn.all_insts():
            if i.op == 'store' and i.ops[1].k == 'g' and i.ops[1].name == 'of_seed':
                ctx.fail(R, i, 'seed:writer', '%s writes the PRNG state' % fn.name)


def r_fpscale(ctx, prog):
    R = 'R-FPSCALE'
    ctx.rule(R, 'the value returned by of_rfc5170_rand is fptoui( (double)new_state * (double)maxv / (double)(2^31-1) ) -- RFC 5170\'s '
             'reference scaling expression (no modulo, no integer division, no reassociation)', floor=1)
    f = prog.need_fn('of_rfc5170_rand', R)
    tt = Terms(f, forward=True)
    rets = f.rets()
    ctx.need(len(rets) >= 1, R, 'no return')
    stores = [i for i in f.all_insts() if i.op == 'store' and i.ops[1].k == 'g' and i.ops[1].name == 'of_seed']
    new_state = tt.term(stores[0].ops[0]) if stores else None
    for r in rets:
        t = tt.term(r.ops[0])
        ok = False
        why = show(t)
        if t[0] == 'conv' and t[1] == 'fptoui':
            d = t[2]
            if d[0] == 'bin' and d[1] == 'fdiv' and d[3] == ('fconst', 2147483647.0):
                m = d[2]
                if m[0] == 'bin' and m[1] == 'fmul':
                    a, b = m[2], m[3]
                    want = set([('conv', 'uitofp', new_state), ('conv', 'uitofp', ('param', 0))])
                    if set([a, b]) == want and a != b:
                        ok = True
        # the reloaded state must be the stored one (store dominates the return and is forwarded)
        ctx.instance(R, ok, r, 'rand:scale',
                     'returned value is %s; RFC 5170 requires (unsigned)((double)state * (double)maxv / (double)0x7FFFFFFF) '
                     'on the updated state' % why[:300])


def r_srand_dom(ctx, prog):
    R = 'R-SRAND-DOM'
    ctx.rule(R, 'every draw from the RFC 5170 PRNG is preceded, on every path, by of_rfc5170_srand(<seed parameter>): in the drawing '
             'function itself, or at every call site of a helper that draws without seeding; nothing else calls the generator', floor=1)
    callers = {}
    for fn in prog.all_functions:
        cs = [c for c in fn.calls('of_rfc5170_rand')]
        if cs:
            callers[fn.name] = (fn, cs)
    ctx.need(callers, R, 'nobody calls of_rfc5170_rand any more')

    def seeded_at(fn, inst, depth=0):
        """is `inst` dominated by srand(parameter) in fn, or is every call site of fn seeded (recursively)?"""
        tt = Terms(fn)
        ss = [s for s in fn.calls('of_rfc5170_srand') if tt.term(s.args[0])[0] == 'param']
        if any(fn.dominates(s, inst) for s in ss):
            return True
        if depth >= 3:
            return False
        sites = prog.callers(fn.name)
        if not sites:
            return False
        return all(seeded_at(c.fn, c, depth + 1) for c in sites)

    for name, (fn, cs) in sorted(callers.items()):
        tt = Terms(fn)
        for c in cs:
            ok = seeded_at(fn, c)
            ctx.instance(R, ok, c, 'draw:seeded:%s' % name, 'draw from the PRNG in %s not preceded by of_rfc5170_srand(seed parameter) '
                         'on every path: the matrix would depend on earlier sessions' % name)
    for fn in prog.all_functions:
        tt = Terms(fn)
        for s in fn.calls('of_rfc5170_srand'):
            ok = tt.term(s.args[0])[0] == 'param'
            ctx.instance(R, ok, s, 'srand:arg:%s' % fn.name, 'of_rfc5170_srand called with %s, not a seed parameter of %s' %
                         (show(tt.term(s.args[0])), fn.name))
    return sorted(callers)


# ------------------------------------------------------------------ R-FPRANGE
def r_fprange(ctx, prog, step_info=None):
    """The two numerical claims about the scaling expression, by forward error analysis of the returned expression tree itself
    (standard model: every IEEE-754 double operation returns the exact result times (1+d), |d| <= u = 2^-53; conversions of 32-bit
    integers are exact; a product of two integers below 2^53 is exact).  All constants come from the IR."""
    from fractions import Fraction as Fr
    R = 'R-FPRANGE'
    ctx.rule(R, 'forward error analysis of the returned scaling expression: the result is < maxv for every state and every 32-bit maxv, '
             'and equals the exact floor whenever state*maxv < 2^53', floor=1)
    f = prog.need_fn('of_rfc5170_rand', R)
    tt = Terms(f, forward=True)
    rets = f.rets()
    ctx.need(len(rets) == 1, R, 'expected a single return')
    t = tt.term(rets[0].ops[0])
    ctx.need(t[0] == 'conv' and t[1] == 'fptoui', R, 'returned value is not a double truncated to an integer')
    u = Fr(1, 2 ** 53)
    P = None

    def ev(x):
        """(kind, info): ('int32',) an exactly converted 32-bit integer; ('const', c); ('mul', a, b); ('div', a, b)"""
        nonlocal P
        if x[0] == 'conv' and x[1] == 'uitofp':
            return ('int32', x[2])
        if x[0] == 'conv' and x[1] in ('fpext',):
            return ev(x[2])
        if x[0] == 'fconst':
            return ('const', Fr(x[1]))
        if x[0] == 'bin' and x[1] == 'fmul':
            return ('mul', ev(x[2]), ev(x[3]))
        if x[0] == 'bin' and x[1] == 'fdiv':
            return ('div', ev(x[2]), ev(x[3]))
        raise ValueError(show(x)[:80])
    try:
        tree = ev(t[2])
    except ValueError as e:
        ctx.broken(R, 'the returned expression contains an operation outside the error model: %s' % e)
    shape = tree[0] == 'div' and tree[2][0] == 'const' and tree[1][0] == 'mul' and tree[1][1][0] == 'int32' and tree[1][2][0] == 'int32'
    ctx.need(shape, R, 'the returned expression is not (int * int) / constant: the error analysis below does not apply')
    P = tree[2][1]
    ctx.need(P.denominator == 1 and P > 1, R, 'divisor is not a positive integer constant')
    P = int(P)
    # the state operand ranges over [1, modulus-1] (R-PRNG-STEP); the analysis needs divisor == modulus
    mod = (step_info or {}).get('modulus')
    if mod is not None:
        ctx.instance(R, mod == P, rets[0], 'fprange:divisor', 'the scaling divides by %d but the state ranges over [1, %d-1]' % (P, mod))
    smax = P - 1
    asm = 'double operations are IEEE-754 binary64 with round-to-nearest (relative error at most 2^-53 per operation)'
    if asm not in ctx.assumptions:
        ctx.assumptions.append(asm)
    # claim A: computed <= (s*maxv/P) * (1+u)^2 <= maxv * (P-1)/P * (1+u)^2 < maxv
    okA = Fr(smax, P) * (1 + u) ** 2 < 1
    ctx.instance(R, okA, rets[0], 'fprange:below-maxv',
                 'with two roundings the computed quotient can reach maxv for the largest state: the result is not always in 0..maxv-1')
    # claim B: x = s*maxv < 2^53 is exact; q = x/P is rounded once; |error| <= half an ulp at the magnitude of q; a non-integer
    # quotient is at least 1/P below the next integer, an integer quotient is exact: the floor is preserved iff half-ulp < 1/P
    qmax = Fr(2 ** 53, P)
    e = 0
    while Fr(2) ** (e + 1) <= qmax:
        e += 1
    half_ulp = Fr(2) ** (e - 52) / 2
    okB = half_ulp < Fr(1, P)
    ctx.instance(R, okB, rets[0], 'fprange:exact-floor',
                 'for state*maxv < 2^53 the rounding error of the division (%s) is not below the distance 1/%d of a non-integer quotient '
                 'to the next integer: truncation can differ from the exact floor' % (half_ulp, P))
    return {'divisor': P, 'unit_roundoff': '2^-53', 'bound_A': float(Fr(smax, P) * (1 + u) ** 2), 'half_ulp_B': float(half_ulp), 'gap_B': float(Fr(1, P))}
