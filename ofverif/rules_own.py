"""Ownership and memory rules: R-OWN-FIELD, R-OWN-ELEM, R-OWN-LOCAL, R-UAF, R-FREELIST."""
from .ir import Terms, strip_casts, const_of, atoms_at, has_atom, show, ret_sources, out_edges, cond_atoms, blocks_reaching, \
    loop_range, calls_in_loop, term_mentions_global
from .effects import addr_root, ALLOCATORS, DEALLOCATORS
from .rules_decode import fld, L, is_field_load, error_free_reach, _V

FAMILIES = [
    dict(codec=1, name='RS-2^8', structs=['of_rs_cb'], release='of_rs_release_codec_instance'),
    dict(codec=2, name='RS-2^m', structs=['of_rs_2_m_cb'], release='of_rs_2_m_release_codec_instance'),
    dict(codec=3, name='LDPC-Staircase', structs=['of_ldpc_staircase_cb', 'of_linear_binary_code_cb'],
         release='of_ldpc_staircase_release_codec_instance'),
    dict(codec=5, name='2D-parity', structs=['of_2d_parity_cb', 'of_linear_binary_code_cb'],
         release='of_2d_parity_release_codec_instance'),
    dict(codec=None, name='fec_parms', structs=['fec_parms'], release='of_rs_free'),
    dict(codec=None, name='of_mod2sparse', structs=['of_mod2sparse'], release='of_mod2sparse_free'),
    dict(codec=None, name='of_mod2dense', structs=['of_mod2dense'], release='of_mod2dense_free'),
]
SELF_FREEING = {'of_mod2dense_free': True, 'of_rs_free': True, 'of_mod2sparse_free': False}
MATRIX_DESTRUCTOR = {'of_mod2sparse*': ('of_mod2sparse_free', True),     # (destructor, also needs of_free of the struct)
                     'of_mod2dense*': ('of_mod2dense_free', False)}


def allocator_set(prog):
    """ALLOCATORS closed under "every non-NULL return is a fresh allocation"."""
    c = prog.__dict__.get('_alloc_set')
    if c is not None:
        return c
    alloc = set(ALLOCATORS)
    changed = True
    while changed:
        changed = False
        for f in prog.all_functions:
            if f.name in alloc or not f.ret.endswith('*'):
                continue
            tt = Terms(f)
            nn = [tt.term(v) for v, ch, r in ret_sources(f) if v is not None and const_of(v) != 0]
            if nn and all(t[0] == 'call' and t[1] in alloc for t in nn):
                alloc.add(f.name)
                changed = True
    prog.__dict__['_alloc_set'] = alloc
    return alloc


def _struct_of_gep_store(i):
    """(struct name, field) of the last field step of the address a store writes."""
    v = strip_casts(i.ops[1])
    if v.k == 'i' and v.inst.op == 'getelementptr' and v.inst.path:
        st = v.inst.path[-1]
        if st['kind'] == 'field':
            return st['struct'], st['field']
    return None, None


DESTRUCTOR_NAMES = ('of_rs_2m_release', 'of_rs_free', 'of_mod2sparse_free', 'of_mod2dense_free', 'of_free')


def is_destructor_part(prog, f, depth=0):
    """a destructor, or a static helper all of whose call sites are in destructors (a destructor split into pieces)"""
    if f.name.endswith('release_codec_instance') or f.name in DESTRUCTOR_NAMES:
        return True
    if not f.internal or depth > 2:
        return False
    sites = prog.callers(f.name)
    sites = [c for c in sites if c.fn.unit is f.unit]
    return bool(sites) and all(is_destructor_part(prog, c.fn, depth + 1) for c in sites)


def frees_in(prog, f, depth=0):
    """[(call inst, deallocator name, term of freed pointer)] in f, following callees that are passed the object itself
    (e.g. of_rs_2m_release(ofcb))."""
    tt = Terms(f)
    out = []
    for c in f.calls():
        if c.callee in DEALLOCATORS or c.callee in SELF_FREEING or c.callee == 'of_rs_2m_release':
            if c.callee == 'of_rs_2m_release' and depth < 2:
                g = prog.callee_fn(c)
                if g is not None and tt.term(c.args[0]) == ('param', 0):
                    for (c2, n2, t2, gi, ci) in frees_in(prog, g, depth + 1):
                        out.append((c, n2, t2, gi, ci))     # attributed to the call site in f; guards judged in the callee
                continue
            if c.args:
                out.append((c, c.callee, tt.term(c.args[0]), f, c))
        else:
            # a static helper of the unit that is handed the object itself (a destructor split into pieces)
            g = prog.callee_fn(c) if c.callee else None
            if g is not None and g.internal and g.unit is f.unit and depth < 2 and c.args and tt.term(c.args[0]) == ('param', 0):
                for (c2, n2, t2, gi, ci) in frees_in(prog, g, depth + 1):
                    out.append((c, n2, t2, gi, ci))
    return out


def r_own_field(ctx, prog, codecs, helpers=True):
    R = 'R-OWN-FIELD'
    ctx.rule(R, 'owned is a subset of released: every member of a control block / matrix object that anywhere receives a library '
             'allocation is passed to a deallocator by the object\'s destructor whenever it is non-NULL (matrix members: their '
             'destructor and, for sparse matrices, of_free of the struct as well)', floor=1)
    alloc = allocator_set(prog)
    for fam in FAMILIES:
        if fam['codec'] is not None and fam['codec'] not in codecs:
            continue
        if fam['codec'] is None and not helpers:
            continue
        # Owned
        owned = {}
        for f in prog.all_functions:
            tt = Terms(f)
            for i in f.all_insts():
                if i.op != 'store':
                    continue
                st, field = _struct_of_gep_store(i)
                if st is None or st.split('.')[0] not in fam['structs']:
                    continue
                if fam['codec'] in (3, 5) and st == 'of_linear_binary_code_cb':
                    pass
                v = tt.term(i.ops[0])
                if v[0] == 'call' and v[1] in alloc:
                    owned.setdefault(field, i)
        D = prog.need_fn(fam['release'], R)
        dt = Terms(D)
        fr = frees_in(prog, D)
        ctx.need(owned, R, '%s: no owned member found (allocation sites vanished?)' % fam['name'])
        for field, site in sorted(owned.items()):
            key = '%s:%s' % (fam['name'], field)
            ditype = _member_type(prog, fam['structs'][0], field)
            need = [('of_free', None)]
            if ditype in MATRIX_DESTRUCTOR:
                dname, also_free = MATRIX_DESTRUCTOR[ditype]
                need = [(dname, None)] + ([('of_free', None)] if also_free else [])
            if field == 'rs_cb':
                need = [('of_rs_free', None)]
            missing = []
            for dname, _ in need:
                hits = [(gi, ci) for (c, n, t, gi, ci) in fr if (n == dname or (dname == 'of_free' and n == 'free')) and
                        is_field_load(t, field)]
                if not hits:
                    missing.append(dname)
                    continue
                # released whenever non-NULL: the call may only be conditional on "member != NULL" and on the role test
                ok_cond = False
                for gi, ci in hits:
                    bad = [a for a in atoms_at(gi, Terms(gi), ci.block) if not _benign_release_guard(a, field, prog, site)]
                    if not bad:
                        ok_cond = True
                if not ok_cond:
                    missing.append(dname + ' (only under an unrelated condition)')
            ctx.instance(R, not missing, site if missing else D, key,
                         '%s.%s receives a library allocation (%s at %s) but %s does not release it: missing %s' %
                         (fam['structs'][0], field, show(Terms(site.fn).term(site.ops[0]))[:40], site.loc(), fam['release'],
                          ', '.join(missing)))


def _member_type(prog, struct, field):
    s = prog.distructs.get(struct)
    if s:
        for m in s['members']:
            if m['name'] == field:
                return m['ty']
    return None


def _benign_release_guard(a, field, prog, site):
    if a[0] != 'cmp':
        return True
    # member != NULL (for this or any other member: nested ifs on the owning table)
    if a[1] == 'ne' and a[3] == ('const', 0) and a[2][0] in ('load', 'load@') and a[2][1][0] == 'field':
        if a[2][1][2] == field:
            return True
    # role test, if the allocation site is under the same role test
    if a[1] == 'ne' and a[3] == ('const', 0) and a[2][0] == 'bin' and a[2][1] == 'and':
        st = Terms(site.fn)
        sa = atoms_at(site.fn, st, site.block)
        for b in sa:
            if b[0] == 'cmp' and b[1] == 'ne' and b[2][0] == 'bin' and b[2][1] == 'and' and b[2][3] == a[2][3] and \
                    is_field_load(b[2][2], 'codec_type', None) and is_field_load(a[2][2], 'codec_type', None):
                return True
        return False
    # exit condition of an earlier sweep loop (compares a loop counter): every loop of a destructor terminates
    if a[2][0] == 'phi' or a[3][0] == 'phi':
        return True
    # p == NULL guard of "of_rs_free(p)" style destructors (param itself)
    if a[2] == ('param', 0) and a[3] == ('const', 0):
        return True
    return False


def r_own_elem(ctx, prog, codecs):
    R = 'R-OWN-ELEM'
    ctx.rule(R, 'tables whose elements receive library allocations are swept by the destructor over exactly the owned index range '
             '(repair slots k..n-1 of the symbol table, all n-k constant terms); source slots and RS decoded symbols, which the API '
             'hands to the application, are not freed', floor=1)
    for fam in FAMILIES:
        if fam['codec'] not in codecs or fam['codec'] is None:
            continue
        D = prog.need_fn(fam['release'], R)
        dt = Terms(D)
        st = fam['structs'][0]
        if fam['codec'] in (3, 5):
            specs = [('encoding_symbols_tab', L(fld(prog, st, 'nb_source_symbols')), L(fld(prog, st, 'nb_total_symbols'))),
                     ('tab_const_term_of_equ', ('const', 0), L(fld(prog, st, 'nb_repair_symbols')))]
            for table, lo, hi in specs:
                found = None
                for lp in D.loops.values():
                    lr = loop_range(D, lp, dt)
                    if lr is None:
                        continue
                    iv = dt.term(_V(lr.iv))
                    elem = L(('elem', L(fld(prog, st, table)), iv))
                    frees = [c for c in calls_in_loop(D, lp) if c.callee in DEALLOCATORS and dt.term(c.args[0]) == elem]
                    if frees:
                        found = (lr, frees)
                key = '%s:%s[]' % (fam['name'], table)
                if found is None:
                    # the sweep may live in a static helper called with (table, first, last)
                    hs = _helper_sweep(prog, D, dt, L(fld(prog, st, table)))
                    if hs is not None:
                        c, h_lo, h_hi, h_pred, h_step, desc = hs
                        ok = h_lo == lo and h_hi == hi and h_pred == 'ult' and h_step == 1
                        ctx.instance(R, ok, c, key,
                                     '%s sweeps %s over "%s" (in a helper); the library owns exactly the slots %s .. %s-1' %
                                     (fam['release'], table, desc, show(lo), show(hi)))
                        continue
                    ctx.fail(R, D, key, '%s has no loop freeing the elements of %s' % (fam['release'], table))
                    continue
                lr, frees = found
                ok = lr.start == lo and lr.bound == hi and lr.pred == 'ult' and lr.step == 1
                ctx.instance(R, ok, lr.cmp, key,
                             '%s sweeps %s over "%s"; the library owns exactly the slots %s .. %s-1' %
                             (fam['release'], table, lr.describe(), show(lo), show(hi)))
                # the table itself is only freed after the sweep (not before)
        else:
            # RS: decoded source symbols belong to the application; received ones too: no element may be freed
            bad = [c for (c, n, t, gi, ci) in frees_in(prog, D) if t[0] in ('load', 'load@') and t[1][0] == 'elem']
            ctx.instance(R, not bad, bad[0] if bad else D, '%s:no-element-free' % fam['name'],
                         '%s frees elements of a symbol table: those buffers belong to the application' % fam['release'])


def _helper_sweep(prog, D, dt, table_term):
    """A call in D of a static helper whose loop frees elem(<pointer parameter>, iv): (call, start, bound, pred, step, text) with
    the helper's range translated through the call's arguments; None if there is none for this table."""
    for c in D.calls():
        g = prog.callee_fn(c)
        if g is None or not g.internal or g.unit is not D.unit:
            continue
        js = [j for j, a0 in enumerate(c.args) if dt.term(a0) == table_term]
        gt = Terms(g)
        if not js:
            # the helper may be handed the object itself and sweep the member table there
            from .rules_decode import subst_params
            args = [dt.term(a0) for a0 in c.args]
            for lp in g.loops.values():
                lr = loop_range(g, lp, gt)
                if lr is None:
                    continue
                iv = gt.term(_V(lr.iv))
                for c2 in calls_in_loop(g, lp):
                    if c2.callee not in DEALLOCATORS:
                        continue
                    t2 = gt.term(c2.args[0])
                    if t2[0] in ('load', 'load@') and t2[1][0] == 'elem' and t2[1][2] == iv and \
                            subst_params(t2[1][1], args) == table_term:
                        return c, subst_params(lr.start, args), subst_params(lr.bound, args), lr.pred, lr.step, lr.describe()
            continue
        for lp in g.loops.values():
            lr = loop_range(g, lp, gt)
            if lr is None:
                continue
            iv = gt.term(_V(lr.iv))
            for j in js:
                elem = ('load', ('elem', ('param', j), iv))
                if any(c2.callee in DEALLOCATORS and gt.term(c2.args[0]) == elem for c2 in calls_in_loop(g, lp)):
                    def tr(t):
                        if t[0] == 'param' and t[1] < len(c.args):
                            return dt.term(c.args[t[1]])
                        return t
                    return c, tr(lr.start), tr(lr.bound), lr.pred, lr.step, lr.describe()
    return None


def _norm_phi_null(f, tt, t, depth=0):
    """replace every phi that merges one value with NULL (cleanup labels) by that value, recursively"""
    if not isinstance(t, tuple) or depth > 12:
        return t
    if t[0] == 'phi' and isinstance(t[1], int):
        vals = set(tt.term(x) for x in f.insts[t[1]].ops) - set([('const', 0)])
        if len(vals) == 1:
            return _norm_phi_null(f, tt, vals.pop(), depth + 1)
        return t
    return tuple(_norm_phi_null(f, tt, x, depth + 1) if isinstance(x, tuple) else x for x in t)


def _elem_of(f, tt, addr, at, iv):
    """addr is &A[iv] where A is the allocation `at`, possibly seen through a phi merging it with NULL (cleanup labels)."""
    if addr[0] != 'elem' or addr[2] != iv:
        return False
    b = addr[1]
    if b == at:
        return True
    if b[0] == 'phi':
        vals = set(tt.term(x) for x in f.insts[b[1]].ops) - set([('const', 0)])
        return vals == set([at])
    return False


def r_own_elem_local(ctx, prog, scope='api'):
    """Local pointer arrays whose elements take over owned buffers (e.g. the constant terms moved out of the control block for
    Gaussian elimination): every loop that frees the elements sweeps the same index range as the loop that filled them."""
    R = 'R-OWN-ELEM'
    alloc = allocator_set(prog)
    n = 0
    for f in prog.all_functions:
        if not _in_scope(prog, f, scope):
            continue
        tt = Terms(f)
        arrays = [c for c in f.calls() if c.callee in alloc]
        for a in arrays:
            at = ('call', a.callee, a.id)
            fills = []
            sweeps = []
            for lp in f.loops.values():
                lr = loop_range(f, lp, tt)
                if lr is None:
                    continue
                iv = tt.term(_V(lr.iv))
                for bid in lp.blocks:
                    if f.bmap[bid].loop != lp.header.id:
                        continue        # only instructions of this loop level
                    for i in f.bmap[bid].insts:
                        if i.op == 'store' and _elem_of(f, tt, tt.term(i.ops[1]), at, iv) and tt.term(i.ops[0]) != ('const', 0):
                            fills.append((lr, i))
                        if i.op == 'call' and i.callee in DEALLOCATORS and i.args:
                            t = tt.term(i.args[0])
                            if t[0] in ('load', 'load@') and _elem_of(f, tt, t[1], at, iv):
                                sweeps.append((lr, i))
            if not fills or not sweeps:
                continue
            def rng(lr):
                return (_norm_phi_null(f, tt, lr.start), _norm_phi_null(f, tt, lr.bound), lr.pred, lr.step)
            ranges = set(rng(lr) for lr, _ in fills)
            if len(ranges) != 1:
                continue
            fr = list(ranges)[0]
            for lr, i in sweeps:
                n += 1
                ok = rng(lr) == fr
                ctx.instance(R, ok, i, '%s:local-array#%d:sweep' % (f.name, _ordinal(f, a)),
                             '%s fills the local array allocated at %s over "%s" but frees its elements over "%s": the remaining '
                             'elements leak (or slots never filled are freed)' % (f.name, a.loc(), fills[0][0].describe(), lr.describe()))
    return n


# ------------------------------------------------------------------ R-OWN-LOCAL
def _aliases(f, tt, call):
    """SSA instructions that carry the allocation's pointer: the call, casts, GEP-free phis containing it."""
    al = set([call.id])
    changed = True
    while changed:
        changed = False
        for i in f.all_insts():
            if i.id in al:
                continue
            if i.op in ('bitcast', 'phi'):
                for o in i.ops:
                    so = strip_casts(o)
                    if so.k == 'i' and so.inst.id in al:
                        al.add(i.id)
                        changed = True
                        break
    return al


def _is_alias(v, al):
    sv = strip_casts(v)
    return sv.k == 'i' and sv.inst.id in al


def local_allocs(prog, f):
    alloc = allocator_set(prog)
    out = []
    for c in f.calls():
        if c.callee in alloc and c.callee not in ('of_realloc', 'realloc'):
            out.append(c)
    return out


def capture_sites(prog, g, argidx, depth=0):
    """Sites in g (and owning callees) where its argidx-th pointer parameter is freed, stored into longer-lived memory or
    returned: list of atom lists (the guards of each site, in g's own terms).  An empty atom list = unconditional."""
    key = ('_capsites', argidx)
    if key in g.__dict__:
        return g.__dict__[key]
    g.__dict__[key] = []
    tt = Terms(g)
    sites = []
    P = ('param', argidx)

    def guards(block):
        # keep only guards that talk about the parameters / the object (anything else is treated as "may hold")
        return [a for a in atoms_at(g, tt, block) if a[0] == 'cmp']
    for i in g.all_insts():
        if i.op == 'call' and i.callee:
            for j, a in enumerate(i.args):
                if tt.term(a) == P:
                    if i.callee in DEALLOCATORS or SELF_FREEING.get(i.callee, False):
                        sites.append(guards(i.block))
                    elif depth < 3 and prog.callee_fn(i) is not None and prog.callee_fn(i) is not g:
                        inner = capture_sites(prog, prog.callee_fn(i), j, depth + 1)
                        from .rules_decode import subst_params
                        iargs = [tt.term(x) for x in i.args]
                        for ig in inner:
                            # the inner guards, expressed over this function's values, together with the guards of the call
                            tr = [('cmp', a2[1], subst_params(a2[2], iargs), subst_params(a2[3], iargs)) for a2 in ig]
                            sites.append(guards(i.block) + tr)
        if i.op == 'store' and tt.term(i.ops[0]) == P:
            root = addr_root(tt.term(i.ops[1]))
            if root[0] not in ('local', 'viaLocal'):
                sites.append(guards(i.block))
        if i.op == 'ret' and i.ops and tt.term(i.ops[0]) == P:
            sites.append(guards(i.block))
    g.__dict__[key] = sites
    return sites


def takes_ownership(prog, callee, argidx, depth=0):
    """Does the callee free, store (capture) or return its argidx-th pointer parameter on some path?"""
    g = prog.fn(callee) if isinstance(callee, str) else callee
    if g is None:
        return callee in DEALLOCATORS if isinstance(callee, str) else False
    return bool(capture_sites(prog, g, argidx))


# ---- a very small linear reasoner, used to show that a conditional capture cannot happen at a given call site
def _lin(t):
    """term -> ({atomic term: coef}, const) for +, -, constants; casts are transparent in terms already"""
    if t[0] == 'const':
        return {}, t[1]
    if t[0] == 'bin' and t[1] in ('add', 'sub'):
        a, ca = _lin(t[2])
        b, cb = _lin(t[3])
        sg = 1 if t[1] == 'add' else -1
        out = dict(a)
        for k2, v in b.items():
            out[k2] = out.get(k2, 0) + sg * v
        return dict((k2, v) for k2, v in out.items() if v), ca + sg * cb
    return {t: 1}, 0


def _lower_bound(t, K, depth=0):
    """a lower bound of term t implied by the atoms K (constants and one level of x >= y chains); None if unknown"""
    lb = 0     # unsigned quantities
    for a in K:
        if a[0] != 'cmp':
            continue
        for (x, y, p) in ((a[2], a[3], a[1]), (a[3], a[2], _swap_pred(a[1]))):
            if x != t:
                continue
            if p in ('uge', 'sge', 'ugt', 'sgt', 'eq'):
                add = 1 if p in ('ugt', 'sgt') else 0
                if y[0] == 'const':
                    lb = max(lb, y[1] + add)
                elif depth < 2:
                    sub = _lower_bound(y, K, depth + 1)
                    if sub is not None:
                        lb = max(lb, sub + add)
    return lb


def _swap_pred(p):
    from .ir import SWAP
    return SWAP[p]


def atom_refuted(atom, K):
    """Is the comparison `atom` (x < y, x <= y) impossible given K?  (no-wrap arithmetic: the quantities are symbol counts
    bounded by the validated limits)"""
    if atom[0] == 'cmp' and atom[1] in ('ugt', 'uge', 'sgt', 'sge'):
        atom = ('cmp', _swap_pred(atom[1]), atom[3], atom[2])       # y > x is x < y
    if atom[0] != 'cmp' or atom[1] not in ('ult', 'ule', 'slt', 'sle'):
        return False
    a, ca = _lin(atom[2])
    b, cb = _lin(atom[3])
    d = dict(a)
    for k2, v in b.items():
        d[k2] = d.get(k2, 0) - v
    d = dict((k2, v) for k2, v in d.items() if v)
    c = ca - cb
    # minimum of (x - y)
    lo = c
    for k2, v in d.items():
        if v < 0:
            return False          # would need an upper bound
        lbk = _lower_bound(k2, K)
        if lbk is None:
            return False
        lo += v * lbk
    # x < y refuted if x - y >= 0 always; x <= y refuted if x - y >= 1 always
    return lo >= (0 if atom[1] in ('ult', 'slt') else 1)


def api_reachable(prog):
    """Functions reachable through direct calls from the public API (the functions of of_openfec_api.c)."""
    c = prog.__dict__.get('_api_reach')
    if c is not None:
        return c
    roots = [f for f in prog.all_functions if f.unit.name == 'of_openfec_api.c' and not f.internal]
    seen = set(id(f) for f in roots)
    work = list(roots)
    out = list(roots)
    while work:
        f = work.pop()
        for call in f.calls():
            g = prog.callee_fn(call)
            if g is not None and id(g) not in seen:
                seen.add(id(g))
                work.append(g)
                out.append(g)
    prog.__dict__['_api_reach'] = out
    return out


def _in_scope(prog, f, scope):
    if scope is None:
        return True
    if scope == 'api':
        return any(g is f for g in api_reachable(prog))
    if callable(scope):
        return scope(f)
    return f.unit.name in scope


def r_own_local(ctx, prog, scope_units=None):
    R = 'R-OWN-LOCAL'
    ctx.rule(R, 'every local allocation is, on every path to a non-error return, freed, stored into an object that outlives the call, '
             'returned, or handed to a callee that frees/keeps it', floor=1)
    n = 0
    for f in prog.all_functions:
        if not _in_scope(prog, f, scope_units):
            continue
        allocs = local_allocs(prog, f)
        if not allocs:
            continue
        tt = Terms(f)
        reach_ok, removed = error_free_reach(prog, f)
        rem = set(removed)
        for call in allocs:
            al = _aliases(f, tt, call)
            # immediately stored into a member / element / out-parameter => ownership transferred (R-OWN-FIELD's business)
            leak = _leak_path(prog, f, tt, call, al, reach_ok, rem)
            n += 1
            ctx.instance(R, leak is None, leak or call, '%s:%s#%d' % (f.name, call.callee, _ordinal(f, call)),
                         '%s: the buffer allocated by %s at %s can reach the return at %s still allocated and unreferenced (leak)' %
                         (f.name, call.callee, call.loc(), leak.loc() if leak else ''))
    ctx.need(n >= 20, R, 'only %d local allocation sites analysed' % n)


def _ordinal(f, call):
    k = 0
    for c in f.calls(call.callee):
        if c is call:
            return k
        k += 1
    return k


def _release_event(prog, f, tt, i, al):
    """Does instruction i end the function's responsibility for the allocation?"""
    if i.op == 'call':
        for j, a in enumerate(i.args or []):
            if _is_alias(a, al):
                if i.callee in DEALLOCATORS or i.callee in SELF_FREEING:
                    return True
                if i.callee in ('of_realloc', 'realloc'):
                    return True
                if i.callee and prog.callee_fn(i) is not None and takes_ownership(prog, prog.callee_fn(i), j):
                    if _capture_possible(prog, f, i, j):
                        return True
        return False
    if i.op == 'store' and _is_alias(i.ops[0], al):
        root = addr_root(tt.term(i.ops[1]))
        if root[0] in ('local',):
            return False
        return True           # stored into a member, a table element, an out-parameter, a global: it now belongs there
    if i.op == 'ret' and i.ops and _is_alias(i.ops[0], al):
        return True
    return False


def _capture_possible(prog, f, call, j):
    """The callee captures its j-th argument only under guards; can those guards hold at this call site?"""
    from .rules_param import _callee_nonnull_atoms, _atomset
    from .rules_decode import subst_params
    g = prog.callee_fn(call)
    sites = capture_sites(prog, g, j)
    if any(not s2 for s2 in sites):
        return True
    tf = Terms(f, forward=True)
    K = set(_atomset(atoms_at(f, tf, call.block)))
    for a in list(K):
        if a[1] == 'ne' and a[3] == ('const', 0) and a[2][0] == 'call':
            h = prog.fn(a[2][1], f.unit)
            ci = f.insts.get(a[2][2])
            if h is not None and ci is not None and h.ret.endswith('*'):
                K |= _callee_nonnull_atoms(prog, h, [tf.term(x) for x in ci.args])
    args = [tf.term(x) for x in call.args]
    for guards in sites:
        refuted = False
        for a in guards:
            ta = ('cmp', a[1], _forward_loads(f, tf, subst_params(a[2], args), call), _forward_loads(f, tf, subst_params(a[3], args), call))
            if atom_refuted(ta, K):
                refuted = True
                break
        if not refuted:
            return True
    return False


def _forward_loads(f, tf, t, at, depth=0):
    """replace loads of members by the value the caller stored there before `at` (all stores to it dominate `at`)"""
    if not isinstance(t, tuple) or depth > 8:
        return t
    if t[0] in ('load', 'load@') and t[1][0] in ('field', 'elem'):
        sts = tf.stores_by_addr().get(t[1], [])
        doms = [s2 for s2 in sts if f.dominates(s2, at)]
        if sts and len(doms) == len(sts):
            last = doms[0]
            for s2 in doms[1:]:
                if f.dominates(last, s2):
                    last = s2
            return tf.term(last.ops[0])
        return t
    return tuple(_forward_loads(f, tf, x, at, depth + 1) if isinstance(x, tuple) else x for x in t)


def _leak_path(prog, f, tt, call, al, reach_ok, rem):
    """Forward may-be-live walk from the allocation; returns the `ret` instruction a live allocation can reach."""
    work = [(call.block, call.pos + 1)]
    seen = set()
    while work:
        b, pos = work.pop()
        dead = False
        for i in b.insts[pos:]:
            if _release_event(prog, f, tt, i, al):
                dead = True
                break
            if i.op == 'ret':
                if b.id in reach_ok:
                    return i
                dead = True
                break
        if dead:
            continue
        for s, lab in out_edges(b):
            if (b.id, s.id) in rem:
                continue          # error edge: exempt
            follow = True
            if lab is not None and lab[0] == 'br':
                for a in cond_atoms(tt, lab[1], lab[2]):
                    if a[0] == 'cmp' and a[1] == 'eq' and a[3] == ('const', 0):
                        x = a[2]
                        if (x[0] == 'call' and x[2] in al) or (x[0] == 'phi' and x[1] in al):
                            follow = False      # pointer is NULL on this edge: nothing allocated / already handed over
            if follow and s.id not in seen:
                seen.add(s.id)
                work.append((s, 0))
    return None


# ------------------------------------------------------------------ R-UAF
def r_uaf(ctx, prog, scope_units=None, min_sites=30):
    R = 'R-UAF'
    ctx.rule(R, 'no pointer is used (dereferenced, passed on, freed again) after it was freed: neither the SSA value, nor a reload of '
             'the member it was loaded from without an intervening assignment', floor=1)
    n = 0
    for f in prog.all_functions:
        if not _in_scope(prog, f, scope_units):
            continue
        tt = Terms(f)
        for c in f.calls():
            if c.callee not in DEALLOCATORS and not SELF_FREEING.get(c.callee, False):
                continue           # (of_mod2sparse_free releases the contents, not the struct: the pointer stays valid)
            if not c.args:
                continue
            n += 1
            v = strip_casts(c.args[0])
            t = tt.term(c.args[0])
            bad = None
            # (1) SSA value reused without being redefined
            if v.k == 'i':
                bad = _ssa_use_after(f, c, v.inst)
            # (2) member / element reloaded and used without reassignment
            if bad is None and t[0] in ('load', 'load@') and t[1][0] in ('field', 'elem'):
                bad = _reload_use_after(prog, f, tt, c, t[1])
            ctx.instance(R, bad is None, bad or c, '%s:free#%d' % (f.name, _ordinal(f, c)),
                         '%s: %s freed at %s is used again at %s' % (f.name, show(t)[:60], c.loc(), bad.loc() if bad else ''))
    ctx.need(n >= min_sites, R, 'only %d deallocation sites analysed' % n)


def _walk_from(f, start_inst, stop_pred, visit):
    """Visit instructions executed after start_inst along all paths; stop a path when stop_pred(inst) is true
    (the stopping instruction itself is visited first)."""
    work = [(start_inst.block, start_inst.pos + 1)]
    seen = set()
    while work:
        b, pos = work.pop()
        stopped = False
        for i in b.insts[pos:]:
            if stop_pred(i):
                stopped = True
                break
            r = visit(i)
            if r is not None:
                return r
        if stopped:
            continue
        for s in b.succs:
            if s.id not in seen:
                seen.add(s.id)
                work.append((s, 0))
    return None


def _ssa_use_after(f, freecall, definst):
    def visit(i):
        if i is definst:
            return None
        for o in i.ops:
            so = strip_casts(o)
            if so.k == 'i' and so.inst is definst:
                # comparing the stale pointer with NULL is harmless; anything else is a use
                if i.op == 'icmp':
                    return None
                if i.op in ('bitcast',):
                    return None
                if i.op == 'phi':
                    return None
                return i
        return None
    return _walk_from(f, freecall, lambda i: i is definst, visit)


def _ids_in(t, acc):
    if isinstance(t, tuple):
        if t[0] in ('phi', 'icall', 'alloca') and isinstance(t[1], int):
            acc.add(t[1])
        elif t[0] in ('call',) and len(t) > 2 and isinstance(t[2], int):
            acc.add(t[2])
        elif t[0] == 'load@':
            acc.add(t[2])
        for x in t[1:]:
            _ids_in(x, acc)
    return acc


def _elem_parts(tt, ptr_v):
    """For a pointer operand that is &base[idx] (GEP with one trailing index): (base term, index SSA inst or None, index term)."""
    v = strip_casts(ptr_v)
    if v.k != 'i' or v.inst.op != 'getelementptr' or not v.inst.path:
        return None
    g = v.inst
    last = g.path[-1]
    if 'idxv' not in last:
        return None
    a = tt.term(ptr_v)
    if a[0] != 'elem':
        return None
    iv = strip_casts(last['idxv'])
    return a[1], (iv.inst if iv.k == 'i' else None), a[2]


def _reload_use_after(prog, f, tt, freecall, addr):
    """The freed pointer was loaded from `addr` (member or table element).  If that location still holds it (no store to it
    between the load and the free), a later reload that is used before the location is reassigned is a use after free.
    For table elements the index is followed along each path through phis and casts (value equality of SSA values), so that
    "next iteration, next element" is told apart from "next iteration, same element"."""
    v = strip_casts(freecall.args[0])
    if v.k != 'i' or v.inst.op != 'load' or v.inst.block is not freecall.block:
        return None
    for i in freecall.block.insts[v.inst.pos:freecall.pos]:
        if i.op == 'store' and tt.term(i.ops[1]) == addr:
            return None            # the location was reassigned before the free: it no longer holds the freed pointer
    parts = _elem_parts(tt, v.inst.ops[0]) if addr[0] == 'elem' else None
    if parts is None or parts[1] is None:
        dep = _ids_in(addr, set())

        def stop(i):
            return (i.op == 'store' and tt.term(i.ops[1]) == addr) or i.id in dep

        def visit(i):
            if i.op == 'load' and tt.term(i.ops[0]) == addr:
                for u in i.users:
                    if u.op not in ('icmp', 'phi'):
                        return u
            return None
        return _walk_from(f, freecall, stop, visit)
    base, idx_inst, _ = parts
    dep_base = _ids_in(base, set())

    def same_slot(ptr_v, eq):
        p2 = _elem_parts(tt, ptr_v)
        return p2 is not None and p2[0] == base and p2[1] is not None and p2[1].id in eq

    start_eq = frozenset([idx_inst.id])
    work = [(freecall.block, freecall.pos + 1, start_eq)]
    seen = set()
    while work:
        b, pos, eq = work.pop()
        eqs = set(eq)
        stopped = False
        for i in b.insts[pos:]:
            if i.op == 'phi':
                continue
            if i.id in dep_base:
                stopped = True       # the table pointer itself is re-evaluated
                break
            if i.id in eqs:
                eqs.discard(i.id)    # re-executed definition: a new value
            if i.op in ('zext', 'sext', 'trunc', 'bitcast'):
                o = strip_casts(i.ops[0])
                if o.k == 'i' and o.inst.id in eqs:
                    eqs.add(i.id)
            if i.op == 'store' and same_slot(i.ops[1], eqs):
                stopped = True
                break
            if i.op == 'load' and same_slot(i.ops[0], eqs):
                for u in i.users:
                    if u.op not in ('icmp', 'phi'):
                        return u
        if stopped or not eqs:
            continue
        for s2 in b.succs:
            e2 = set(eqs)
            for ph in s2.insts:
                if ph.op != 'phi':
                    break
                inc = [x for (bid, x) in ph.incoming if bid == b.id]
                took = False
                for x in inc:
                    sx = strip_casts(x)
                    if sx.k == 'i' and sx.inst.id in eqs:
                        took = True
                if took:
                    e2.add(ph.id)
                else:
                    e2.discard(ph.id)
            key = (s2.id, frozenset(e2))
            if key not in seen and e2:
                seen.add(key)
                work.append((s2, 0, frozenset(e2)))
    return None


def r_dangling(ctx, prog, scope_units=None):
    """Outside destructors, a member (or table element) whose pointer is freed must be reassigned before the function returns
    a non-error status: otherwise the object keeps a dangling pointer that the destructor (or the next user) frees/uses again."""
    R = 'R-DANGLING'
    ctx.rule(R, 'a member or table element whose buffer is freed outside the destructor is reassigned (NULL or a new buffer) on every '
             'path to a non-error return', floor=1)
    n = 0
    for f in prog.all_functions:
        if not _in_scope(prog, f, scope_units):
            continue
        if is_destructor_part(prog, f):
            continue
        tt = Terms(f)
        for c in f.calls():
            if c.callee not in DEALLOCATORS and not SELF_FREEING.get(c.callee, False):
                continue
            if not c.args:
                continue
            t = tt.term(c.args[0])
            if t[0] not in ('load', 'load@') or t[1][0] not in ('field', 'elem'):
                continue
            addr = t[1]
            root = addr_root(addr)
            if root[0] not in ('field', 'elems'):
                continue          # only storage that outlives the call (members, elements of member tables)
            v = strip_casts(c.args[0])
            if v.k != 'i' or v.inst.op != 'load':
                continue
            # reassigned between load and free? (then the location does not hold the freed pointer)
            if v.inst.block is c.block and any(i.op == 'store' and tt.term(i.ops[1]) == addr
                                               for i in c.block.insts[v.inst.pos:c.pos]):
                continue
            n += 1
            dep = _ids_in(addr, set())
            reach_ok, removed = error_free_reach(prog, f)

            def stop(i, addr=addr, dep=dep):
                return (i.op == 'store' and tt.term(i.ops[1]) == addr) or i.id in dep

            bad = _walk_to_nonerror_ret(f, c, stop)
            ctx.instance(R, bad is None, c, '%s:%s' % (f.name, _addr_key(addr)),
                         '%s frees %s at %s and can return (%s) with the stale pointer still stored there' %
                         (f.name, show(('load', addr))[:60], c.loc(), bad.loc() if bad else ''))
    ctx.need(n >= 5, R, 'only %d member-free sites outside destructors' % n)


def _walk_to_nonerror_ret(f, start, stop_pred):
    """Is a return of a non-error status reachable from `start` without passing an instruction for which stop_pred holds?
    The status returned through a phi is judged per incoming edge."""
    work = [(start.block, start.pos + 1, None)]
    seen = set()
    while work:
        b, pos, pred = work.pop()
        stopped = False
        for i in b.insts[pos:]:
            if stop_pred(i):
                stopped = True
                break
            if i.op == 'ret':
                if not i.ops:
                    return i
                v = strip_casts(i.ops[0])
                val = const_of(i.ops[0])
                if v.k == 'i' and v.inst.op == 'phi' and v.inst.block is b and pred is not None:
                    for bid, x in v.inst.incoming:
                        if bid == pred.id:
                            val = const_of(x)
                            if val is None:
                                val = 'dyn'
                if val in (2, 3):
                    stopped = True
                    break
                return i
        if stopped:
            continue
        for s2 in b.succs:
            key = (b.id, s2.id)
            if key not in seen:
                seen.add(key)
                work.append((s2, 0, b))
    return None


def _all_error_phi(f, ret):
    for v, chain, r in ret_sources(f):
        if r is ret and const_of(v) not in (2, 3):
            return False
    return True


def _addr_key(addr):
    import re
    return re.sub(r'(phi:|#|icall:)\d+', '', show(('load', addr)))[:70]


# ------------------------------------------------------------------ R-FREELIST
def r_freelist(ctx, prog):
    R = 'R-FREELIST'
    ctx.rule(R, 'of_mod2sparse.next_free points into of_mod2sparse.blocks: any function that frees blocks of a matrix that stays '
             'alive must reset next_free before returning', floor=1)
    u = [x for x in prog.units if x.name == 'of_matrix_sparse.c']
    ctx.need(u, R, 'unit of_matrix_sparse.c missing')
    n = 0
    for f in u[0].functions.values():
        tt = Terms(f)
        fr = [c for c in f.calls() if c.callee in DEALLOCATORS and c.args and
              _mentions_field(tt.term(c.args[0]), 'blocks')]
        if not fr:
            continue
        n += 1
        if f.name == 'of_mod2sparse_free':
            # destructor: the object is dead afterwards; it must free rows, cols and every block (R-OWN-FIELD) -- nothing to reset
            ctx.ok(R, f, f.name + ':destructor')
            continue
        resets = [i for i in f.all_insts() if i.op == 'store' and addr_root(tt.term(i.ops[1])) == ('field', 'next_free')
                  and const_of(i.ops[0]) == 0]
        # every path from a block-free to a return passes a reset
        bad = None
        for c in fr:
            stop = set(i.block.id for i in resets if _after(f, c, i))
            reach = f.reachable(c.block, stop=[f.bmap[b] for b in stop])
            for r in f.rets():
                if r.block.id in reach and r.block.id not in stop:
                    # the return is reachable without passing through a reset block
                    if not any(i.block is r.block for i in resets):
                        bad = r
        ctx.instance(R, bad is None, bad or f, f.name + ':reset',
                     '%s frees the entry blocks of a live matrix but can return without resetting next_free: the next insertion '
                     'takes its entry from freed memory' % f.name)
    ctx.need(n >= 2, R, 'block-freeing functions not found')


def _after(f, a, b):
    if a.block is b.block:
        return b.pos > a.pos
    return b.block.id in f.reachable(a.block)


def _mentions_field(t, name):
    if not isinstance(t, tuple):
        return False
    if t[0] == 'field' and t[2] == name:
        return True
    return any(_mentions_field(x, name) for x in t[1:] if isinstance(x, tuple))


# ------------------------------------------------------------------ R-OWN-OVERWRITE
SETUP_SUFFIX = ('create_codec_instance', 'set_fec_parameters')
SINGLE_SHOT_ENTRIES = set(['of_finish_decoding'])     # "finish decoding": called once per session by the documented protocol


def _entry_reach(prog):
    """function id -> set of public API entry names from which it is reachable through direct calls"""
    c = prog.__dict__.get('_entry_reach')
    if c is not None:
        return c
    out = {}
    roots = [f for f in prog.all_functions if f.unit.name == 'of_openfec_api.c' and not f.internal]
    for r in roots:
        seen = set([id(r)])
        work = [r]
        while work:
            f = work.pop()
            out.setdefault(id(f), set()).add(r.name)
            for call in f.calls():
                g = prog.callee_fn(call)
                if g is not None and id(g) not in seen:
                    seen.add(id(g))
                    work.append(g)
    prog.__dict__['_entry_reach'] = out
    return out


def r_own_overwrite(ctx, prog):
    """A member that owns a block must not be overwritten with a fresh allocation: outside session set-up, every store of a library
    allocation into a control-block member is (a) under "member == NULL", in the function or at every call site of the helper
    that contains it, (b) preceded by the release of the member, (c) transient -- the member is released and reset before every
    non-error return, in the function or in its callers, at every site of the member -- or (d) the member's only allocation
    site, reachable from the single-shot finish entry only."""
    R = 'R-OWN-OVERWRITE'
    ctx.rule(R, 'outside session set-up no control-block member that may already own a block is overwritten by a new allocation '
             '(guarded by member == NULL, released first, transient, or single-shot)', floor=1)
    alloc = allocator_set(prog)
    er = _entry_reach(prog)
    sites = []
    for f in prog.all_functions:
        if id(f) not in er or f.name.endswith(SETUP_SUFFIX):
            continue
        tt = Terms(f)
        for i in f.all_insts():
            if i.op != 'store':
                continue
            st, field = _struct_of_gep_store(i)
            if st is None or not st.endswith('_cb'):
                continue
            v = tt.term(i.ops[0])
            a = tt.term(i.ops[1])
            if not (v[0] == 'call' and v[1] in alloc) or a[0] != 'field' or a[1][0] != 'param':
                continue
            sites.append((f, tt, i, field, a))
    ctx.need(len(sites) >= 4, R, 'allocation stores into control-block members not recognised')
    by_field = {}
    for s in sites:
        by_field.setdefault(s[3], []).append(s)

    def guarded_here(f, tt, inst, addr):
        return any(x[0] == 'cmp' and x[1] == 'eq' and x[3] == ('const', 0) and x[2] == ('load', addr) for x in atoms_at(f, tt, inst.block))

    def released_before(f, tt, inst, addr):
        for c in f.calls():
            if (c.callee in DEALLOCATORS or c.callee == 'of_rs_free') and c.args and tt.term(c.args[0]) == ('load', addr) and \
                    f.dominates(c, inst):
                return True
        return False

    def reset_after(f, tt, start, addr):
        """on every path from `start` to a non-error return the member is stored NULL"""
        def stop(i):
            return i.op == 'store' and tt.term(i.ops[1]) == addr and const_of(i.ops[0]) == 0
        return _walk_to_nonerror_ret(f, start, stop) is None

    def call_sites(f):
        cs = []
        for g in prog.all_functions:
            for c in g.calls():
                if prog.callee_fn(c) is f:
                    cs.append((g, c))
        return cs

    def member_addr(g, gt, base, off):
        for i in g.all_insts():
            if i.op in ('load', 'store'):
                t = gt.term(i.ops[0] if i.op == 'load' else i.ops[1])
                if t[0] == 'field' and t[1] == base and t[3] == off:
                    return t
        return None

    def callers_ok(f, pidx, field, off, depth, guard_only=False):
        """every call site passing its own object as argument pidx of f is guarded by member == NULL"""
        if depth > 2:
            return False
        cs = call_sites(f)
        if not cs:
            return False
        for g, c in cs:
            gt = Terms(g)
            base = gt.term(c.args[pidx]) if pidx < len(c.args) else None
            if base is None:
                return False
            addr_g = member_addr(g, gt, base, off)
            if addr_g is not None and guarded_here(g, gt, c, addr_g):
                continue
            if base[0] == 'param' and callers_ok(g, base[1], field, off, depth + 1):
                continue
            return False
        return True

    def transient_in_callers(f, pidx, off, depth):
        """at every call site the member is reset before every non-error return of the caller (or of its callers)"""
        if depth > 2:
            return False
        cs = call_sites(f)
        if not cs:
            return False
        for g, c in cs:
            gt = Terms(g)
            base = gt.term(c.args[pidx]) if pidx < len(c.args) else None
            if base is None:
                return False
            addr_g = member_addr(g, gt, base, off)
            if addr_g is not None and reset_after(g, gt, c, addr_g):
                continue
            if base[0] == 'param' and transient_in_callers(g, base[1], off, depth + 1):
                continue
            return False
        return True
    for field, ss in sorted(by_field.items()):
        entries_all = set()
        for f, tt, i, fld_, a in ss:
            entries_all |= er.get(id(f), set())
        # a member is persistent when some site leaves it set on return; "transient" justifies a site only for members that are
        # NULL between API calls, i.e. when every site of the member is transient
        trans = {}
        for f, tt, i, fld_, a in ss:
            trans[i.id] = reset_after(f, tt, i, a) or transient_in_callers(f, a[1][1], a[3], 0)
        persistent = [s2 for s2 in ss if not trans[s2[2].id]]
        for f, tt, i, fld_, a in ss:
            how = None
            if guarded_here(f, tt, i, a):
                how = 'guarded by member == NULL'
            elif released_before(f, tt, i, a):
                how = 'released first'
            elif callers_ok(f, a[1][1], field, a[3], 0, guard_only=True):
                how = 'guarded at every call site'
            elif trans[i.id] and not persistent:
                how = 'transient member (reset before every non-error return at every site)'
            elif entries_all <= SINGLE_SHOT_ENTRIES and len(ss) == 1:
                how = 'only allocation site of the member, reachable from the single-shot finish entry only'
            other = [s2 for s2 in (persistent or ss) if s2[2] is not i]
            ctx.instance(R, how is not None, i, 'overwrite:%s:%s' % (f.name, field),
                         '%s stores a new allocation into member %s, which may already own a block%s: the earlier block is lost '
                         '(reachable from %s)' % (f.name, field, ' (allocated and kept at %s)' % other[0][2].loc() if other else '',
                                                  ', '.join(sorted(er.get(id(f), set())))))
