"""Ownership and memory rules: R-OWN-FIELD, R-OWN-ELEM, R-OWN-LOCAL, R-UAF, R-FREELIST."""
from .ir import Terms, strip_casts, const_of, atoms_at, has_atom, show, ret_sources, out_edges, cond_atoms, blocks_reaching, \
    loop_range, calls_in_loop, term_mentions_global
from .effects import addr_root, ALLOCATORS, DEALLOCATORS
from .rules_decode import fld, L, is_field_load, error_free_reach, _V

FAMILIES = [
    dict(codec=1, name='RS-2^8', structs=['of_rs_cb'], release='of_rs_release_codec_instance'),
    dict(codec=2, name='RS-2^m', structs=['of_rs_2_m_cb'], release='of_rs_2_m_release_codec_instance'),
    dict(codec=3, name='LDPC-Staircase', structs=['of_ldpc_staircase_cb', 'of_linear_binary_code_cb'],
         release='of_ldpc_staircase_release_codec_instance'),
    dict(codec=5, name='2D-parity', structs=['of_2d_parity_cb', 'of_linear_binary_code_cb'],
         release='of_2d_parity_release_codec_instance'),
    dict(codec=None, name='fec_parms', structs=['fec_parms'], release='of_rs_free'),
    dict(codec=None, name='of_mod2sparse', structs=['of_mod2sparse'], release='of_mod2sparse_free'),
    dict(codec=None, name='of_mod2dense', structs=['of_mod2dense'], release='of_mod2dense_free'),
]
SELF_FREEING = {'of_mod2dense_free': True, 'of_rs_free': True, 'of_mod2sparse_free': False}
MATRIX_DESTRUCTOR = {'of_mod2sparse*': ('of_mod2sparse_free', True),     # (destructor, also needs of_free of the struct)
                     'of_mod2dense*': ('of_mod2dense_free', False)}


def allocator_set(prog):
    """ALLOCATORS closed under "every non-NULL return is a fresh allocation"."""
    c = prog.__dict__.get('_alloc_set')
    if c is not None:
        return c
    alloc = set(ALLOCATORS)
    changed = True
    while changed:
        changed = False
        for f in prog.all_functions:
            if f.name in alloc or not f.ret.endswith('*'):
                continue
            tt = Terms(f)
            nn = [tt.term(v) for v, ch, r in ret_sources(f) if v is not None and const_of(v) != 0]
            if nn and all(t[0] == 'call' and t[1] in alloc for t in nn):
                alloc.add(f.name)
                changed = True
    prog.__dict__['_alloc_set'] = alloc
    return alloc


def _struct_of_gep_store(i):
    """(struct name, field) of the last field step of the address a store writes."""
    v = strip_casts(i.ops[1])
    if v.k == 'i' and v.inst.op == 'getelementptr' and v.inst.path:
        st = v.inst.path[-1]
        if st['kind'] == 'field':
            return st['struct'], st['field']
    return None, None


def frees_in(prog, f, depth=0):
    """[(call inst, deallocator name, term of freed pointer)] in f, following callees that are passed the object itself
    (e.g. of_rs_2m_release(ofcb))."""
    tt = Terms(f)
    out = []
    for c in f.calls():
        if c.callee in DEALLOCATORS or c.callee in SELF_FREEING or c.callee == 'of_rs_2m_release':
            if c.callee == 'of_rs_2m_release' and depth < 2:
                g = prog.callee_fn(c)
                if g is not None and tt.term(c.args[0]) == ('param', 0):
                    for (c2, n2, t2, gi, ci) in frees_in(prog, g, depth + 1):
                        out.append((c, n2, t2, gi, ci))     # attributed to the call site in f; guards judged in the callee
                continue
            if c.args:
                out.append((c, c.callee, tt.term(c.args[0]), f, c))
    return out


def r_own_field(ctx, prog, codecs, helpers=True):
    R = 'R-OWN-FIELD'
    ctx.rule(R, 'owned is a subset of released: every member of a control block / matrix object that anywhere receives a library '
             'allocation is passed to a deallocator by the object\'s destructor whenever it is non-NULL (matrix members: their '
             'destructor and, for sparse matrices, of_free of the struct as well)', floor=3)
    alloc = allocator_set(prog)
    for fam in FAMILIES:
        if fam['codec'] is not None and fam['codec'] not in codecs:
            continue
        if fam['codec'] is None and not helpers:
            continue
        # Owned
        owned = {}
        for f in prog.all_functions:
            tt = Terms(f)
            for i in f.all_insts():
                if i.op != 'store':
                    continue
                st, field = _struct_of_gep_store(i)
                if st is None or st.split('.')[0] not in fam['structs']:
                    continue
                if fam['codec'] in (3, 5) and st == 'of_linear_binary_code_cb':
                    pass
                v = tt.term(i.ops[0])
                if v[0] == 'call' and v[1] in alloc:
                    owned.setdefault(field, i)
        D = prog.need_fn(fam['release'], R)
        dt = Terms(D)
        fr = frees_in(prog, D)
        ctx.need(owned, R, '%s: no owned member found (allocation sites vanished?)' % fam['name'])
        for field, site in sorted(owned.items()):
            key = '%s:%s' % (fam['name'], field)
            ditype = _member_type(prog, fam['structs'][0], field)
            need = [('of_free', None)]
            if ditype in MATRIX_DESTRUCTOR:
                dname, also_free = MATRIX_DESTRUCTOR[ditype]
                need = [(dname, None)] + ([('of_free', None)] if also_free else [])
            if field == 'rs_cb':
                need = [('of_rs_free', None)]
            missing = []
            for dname, _ in need:
                hits = [(gi, ci) for (c, n, t, gi, ci) in fr if (n == dname or (dname == 'of_free' and n == 'free')) and
                        is_field_load(t, field)]
                if not hits:
                    missing.append(dname)
                    continue
                # released whenever non-NULL: the call may only be conditional on "member != NULL" and on the role test
                ok_cond = False
                for gi, ci in hits:
                    bad = [a for a in atoms_at(gi, Terms(gi), ci.block) if not _benign_release_guard(a, field, prog, site)]
                    if not bad:
                        ok_cond = True
                if not ok_cond:
                    missing.append(dname + ' (only under an unrelated condition)')
            ctx.instance(R, not missing, site if missing else D, key,
                         '%s.%s receives a library allocation (%s at %s) but %s does not release it: missing %s' %
                         (fam['structs'][0], field, show(Terms(site.fn).term(site.ops[0]))[:40], site.loc(), fam['release'],
                          ', '.join(missing)))


def _member_type(prog, struct, field):
    s = prog.distructs.get(struct)
    if s:
        for m in s['members']:
            if m['name'] == field:
                return m['ty']
    return None


def _benign_release_guard(a, field, prog, site):
    if a[0] != 'cmp':
        return True
    # member != NULL (for this or any other member: nested ifs on the owning table)
    if a[1] == 'ne' and a[3] == ('const', 0) and a[2][0] in ('load', 'load@') and a[2][1][0] == 'field':
        if a[2][1][2] == field:
            return True
    # role test, if the allocation site is under the same role test
    if a[1] == 'ne' and a[3] == ('const', 0) and a[2][0] == 'bin' and a[2][1] == 'and':
        st = Terms(site.fn)
        sa = atoms_at(site.fn, st, site.block)
        for b in sa:
            if b[0] == 'cmp' and b[1] == 'ne' and b[2][0] == 'bin' and b[2][1] == 'and' and b[2][3] == a[2][3] and \
                    is_field_load(b[2][2], 'codec_type', None) and is_field_load(a[2][2], 'codec_type', None):
                return True
        return False
    # exit condition of an earlier sweep loop (compares a loop counter): every loop of a destructor terminates
    if a[2][0] == 'phi' or a[3][0] == 'phi':
        return True
    # p == NULL guard of "of_rs_free(p)" style destructors (param itself)
    if a[2] == ('param', 0) and a[3] == ('const', 0):
        return True
    return False


def r_own_elem(ctx, prog, codecs):
    R = 'R-OWN-ELEM'
    ctx.rule(R, 'tables whose elements receive library allocations are swept by the destructor over exactly the owned index range '
             '(repair slots k..n-1 of the symbol table, all n-k constant terms); source slots and RS decoded symbols, which the API '
             'hands to the application, are not freed', floor=2)
    for fam in FAMILIES:
        if fam['codec'] not in codecs or fam['codec'] is None:
            continue
        D = prog.need_fn(fam['release'], R)
        dt = Terms(D)
        st = fam['structs'][0]
        if fam['codec'] in (3, 5):
            specs = [('encoding_symbols_tab', L(fld(prog, st, 'nb_source_symbols')), L(fld(prog, st, 'nb_total_symbols'))),
                     ('tab_const_term_of_equ', ('const', 0), L(fld(prog, st, 'nb_repair_symbols')))]
            for table, lo, hi in specs:
                found = None
                for lp in D.loops.values():
                    lr = loop_range(D, lp, dt)
                    if lr is None:
                        continue
                    iv = dt.term(_V(lr.iv))
                    elem = L(('elem', L(fld(prog, st, table)), iv))
                    frees = [c for c in calls_in_loop(D, lp) if c.callee in DEALLOCATORS and dt.term(c.args[0]) == elem]
                    if frees:
                        found = (lr, frees)
                key = '%s:%s[]' % (fam['name'], table)
                if found is None:
                    ctx.fail(R, D, key, '%s has no loop freeing the elements of %s' % (fam['release'], table))
                    continue
                lr, frees = found
                ok = lr.start == lo and lr.bound == hi and lr.pred == 'ult' and lr.step == 1
                ctx.instance(R, ok, lr.cmp, key,
                             '%s sweeps %s over "%s"; the library owns exactly the slots %s .. %s-1' %
                             (fam['release'], table, lr.describe(), show(lo), show(hi)))
                # the table itself is only freed after the sweep (not before)
        else:
            # RS: decoded source symbols belong to the application; received ones too: no element may be freed
            bad = [c for (c, n, t, gi, ci) in frees_in(prog, D) if t[0] in ('load', 'load@') and t[1][0] == 'elem']
            ctx.instance(R, not bad, bad[0] if bad else D, '%s:no-element-free' % fam['name'],
                         '%s frees elements of a symbol table: those buffers belong to the application' % fam['release'])


# ------------------------------------------------------------------ R-OWN-LOCAL
def _aliases(f, tt, call):
    """SSA instructions that carry the allocation's pointer: the call, casts, GEP-free phis containing it."""
    al = set([call.id])
    changed = True
    while changed:
        changed = False
        for i in f.all_insts():
            if i.id in al:
                continue
            if i.op in ('bitcast', 'phi'):
                for o in i.ops:
                    so = strip_casts(o)
                    if so.k == 'i' and so.inst.id in al:
                        al.add(i.id)
                        changed = True
                        break
    return al


def _is_alias(v, al):
    sv = strip_casts(v)
    return sv.k == 'i' and sv.inst.id in al


def local_allocs(prog, f):
    alloc = allocator_set(prog)
    out = []
    for c in f.calls():
        if c.callee in alloc and c.callee not in ('of_realloc', 'realloc'):
            out.append(c)
    return out


def takes_ownership(prog, callee, argidx, depth=0):
    """Does the callee free, store (capture) or return its argidx-th pointer parameter on some path?"""
    g = prog.fn(callee) if isinstance(callee, str) else callee
    if g is None:
        return callee in DEALLOCATORS if isinstance(callee, str) else False
    key = ('_takes', argidx)
    if key in g.__dict__:
        return g.__dict__[key]
    g.__dict__[key] = False
    tt = Terms(g)
    res = False
    for i in g.all_insts():
        if i.op == 'call' and i.callee:
            for j, a in enumerate(i.args):
                if tt.term(a) == ('param', argidx):
                    if i.callee in DEALLOCATORS or i.callee in SELF_FREEING:
                        res = True
                    elif depth < 3 and prog.callee_fn(i) is not None and takes_ownership(prog, prog.callee_fn(i), j, depth + 1):
                        res = True
        if i.op == 'store' and tt.term(i.ops[0]) == ('param', argidx):
            root = addr_root(tt.term(i.ops[1]))
            if root[0] not in ('local', 'viaLocal'):
                res = True
        if i.op == 'ret' and i.ops and tt.term(i.ops[0]) == ('param', argidx):
            res = True
    g.__dict__[key] = res
    return res


def api_reachable(prog):
    """Functions reachable through direct calls from the public API (the functions of of_openfec_api.c)."""
    c = prog.__dict__.get('_api_reach')
    if c is not None:
        return c
    roots = [f for f in prog.all_functions if f.unit.name == 'of_openfec_api.c' and not f.internal]
    seen = set(id(f) for f in roots)
    work = list(roots)
    out = list(roots)
    while work:
        f = work.pop()
        for call in f.calls():
            g = prog.callee_fn(call)
            if g is not None and id(g) not in seen:
                seen.add(id(g))
                work.append(g)
                out.append(g)
    prog.__dict__['_api_reach'] = out
    return out


def _in_scope(prog, f, scope):
    if scope is None:
        return True
    if scope == 'api':
        return any(g is f for g in api_reachable(prog))
    return f.unit.name in scope


def r_own_local(ctx, prog, scope_units=None):
    R = 'R-OWN-LOCAL'
    ctx.rule(R, 'every local allocation is, on every path to a non-error return, freed, stored into an object that outlives the call, '
             'returned, or handed to a callee that frees/keeps it', floor=20)
    n = 0
    for f in prog.all_functions:
        if not _in_scope(prog, f, scope_units):
            continue
        allocs = local_allocs(prog, f)
        if not allocs:
            continue
        tt = Terms(f)
        reach_ok, removed = error_free_reach(prog, f)
        rem = set(removed)
        for call in allocs:
            al = _aliases(f, tt, call)
            # immediately stored into a member / element / out-parameter => ownership transferred (R-OWN-FIELD's business)
            leak = _leak_path(prog, f, tt, call, al, reach_ok, rem)
            n += 1
            ctx.instance(R, leak is None, leak or call, '%s:%s#%d' % (f.name, call.callee, _ordinal(f, call)),
                         '%s: the buffer allocated by %s at %s can reach the return at %s still allocated and unreferenced (leak)' %
                         (f.name, call.callee, call.loc(), leak.loc() if leak else ''))
    ctx.need(n >= 20, R, 'only %d local allocation sites analysed' % n)


def _ordinal(f, call):
    k = 0
    for c in f.calls(call.callee):
        if c is call:
            return k
        k += 1
    return k


def _release_event(prog, f, tt, i, al):
    """Does instruction i end the function's responsibility for the allocation?"""
    if i.op == 'call':
        for j, a in enumerate(i.args or []):
            if _is_alias(a, al):
                if i.callee in DEALLOCATORS or i.callee in SELF_FREEING:
                    return True
                if i.callee in ('of_realloc', 'realloc'):
                    return True
                if i.callee and prog.callee_fn(i) is not None and takes_ownership(prog, prog.callee_fn(i), j):
                    return True
        return False
    if i.op == 'store' and _is_alias(i.ops[0], al):
        root = addr_root(tt.term(i.ops[1]))
        if root[0] in ('local',):
            return False
        return True           # stored into a member, a table element, an out-parameter, a global: it now belongs there
    if i.op == 'ret' and i.ops and _is_alias(i.ops[0], al):
        return True
    return False


def _leak_path(prog, f, tt, call, al, reach_ok, rem):
    """Forward may-be-live walk from the allocation; returns the `ret` instruction a live allocation can reach."""
    work = [(call.block, call.pos + 1)]
    seen = set()
    while work:
        b, pos = work.pop()
        dead = False
        for i in b.insts[pos:]:
            if _release_event(prog, f, tt, i, al):
                dead = True
                break
            if i.op == 'ret':
                if b.id in reach_ok:
                    return i
                dead = True
                break
        if dead:
            continue
        for s, lab in out_edges(b):
            if (b.id, s.id) in rem:
                continue          # error edge: exempt
            follow = True
            if lab is not None and lab[0] == 'br':
                for a in cond_atoms(tt, lab[1], lab[2]):
                    if a[0] == 'cmp' and a[1] == 'eq' and a[3] == ('const', 0):
                        x = a[2]
                        if (x[0] == 'call' and x[2] in al) or (x[0] == 'phi' and x[1] in al):
                            follow = False      # pointer is NULL on this edge: nothing allocated / already handed over
            if follow and s.id not in seen:
                seen.add(s.id)
                work.append((s, 0))
    return None


# ------------------------------------------------------------------ R-UAF
def r_uaf(ctx, prog, scope_units=None, min_sites=30):
    R = 'R-UAF'
    ctx.rule(R, 'no pointer is used (dereferenced, passed on, freed again) after it was freed: neither the SSA value, nor a reload of '
             'the member it was loaded from without an intervening assignment', floor=1)
    n = 0
    for f in prog.all_functions:
        if not _in_scope(prog, f, scope_units):
            continue
        tt = Terms(f)
        for c in f.calls():
            if c.callee not in DEALLOCATORS and not SELF_FREEING.get(c.callee, False):
                continue           # (of_mod2sparse_free releases the contents, not the struct: the pointer stays valid)
            if not c.args:
                continue
            n += 1
            v = strip_casts(c.args[0])
            t = tt.term(c.args[0])
            bad = None
            # (1) SSA value reused without being redefined
            if v.k == 'i':
                bad = _ssa_use_after(f, c, v.inst)
            # (2) member / element reloaded and used without reassignment
            if bad is None and t[0] in ('load', 'load@') and t[1][0] in ('field', 'elem'):
                bad = _reload_use_after(prog, f, tt, c, t[1])
            ctx.instance(R, bad is None, bad or c, '%s:free#%d' % (f.name, _ordinal(f, c)),
                         '%s: %s freed at %s is used again at %s' % (f.name, show(t)[:60], c.loc(), bad.loc() if bad else ''))
    ctx.need(n >= min_sites, R, 'only %d deallocation sites analysed' % n)


def _walk_from(f, start_inst, stop_pred, visit):
    """Visit instructions executed after start_inst along all paths; stop a path when stop_pred(inst) is true
    (the stopping instruction itself is visited first)."""
    work = [(start_inst.block, start_inst.pos + 1)]
    seen = set()
    while work:
        b, pos = work.pop()
        stopped = False
        for i in b.insts[pos:]:
            if stop_pred(i):
                stopped = True
                break
            r = visit(i)
            if r is not None:
                return r
        if stopped:
            continue
        for s in b.succs:
            if s.id not in seen:
                seen.add(s.id)
                work.append((s, 0))
    return None


def _ssa_use_after(f, freecall, definst):
    def visit(i):
        if i is definst:
            return None
        for o in i.ops:
            so = strip_casts(o)
            if so.k == 'i' and so.inst is definst:
                # comparing the stale pointer with NULL is harmless; anything else is a use
                if i.op == 'icmp':
                    return None
                if i.op in ('bitcast',):
                    return None
                if i.op == 'phi':
                    return None
                return i
        return None
    return _walk_from(f, freecall, lambda i: i is definst, visit)


def _ids_in(t, acc):
    if isinstance(t, tuple):
        if t[0] in ('phi', 'icall', 'alloca') and isinstance(t[1], int):
            acc.add(t[1])
        elif t[0] in ('call',) and len(t) > 2 and isinstance(t[2], int):
            acc.add(t[2])
        elif t[0] == 'load@':
            acc.add(t[2])
        for x in t[1:]:
            _ids_in(x, acc)
    return acc


def _reload_use_after(prog, f, tt, freecall, addr):
    """The freed pointer was loaded from `addr` (member or table element).  If that location still holds it (no store to it
    between the load and the free), a later reload that is used before the location is reassigned is a use after free.
    Paths that re-execute an instruction the address depends on (loop counter phi) reach a different location."""
    v = strip_casts(freecall.args[0])
    if v.k != 'i' or v.inst.op != 'load' or v.inst.block is not freecall.block:
        return None
    for i in freecall.block.insts[v.inst.pos:freecall.pos]:
        if i.op == 'store' and tt.term(i.ops[1]) == addr:
            return None            # the location was reassigned before the free: it no longer holds the freed pointer
    dep = _ids_in(addr, set())

    def stop(i):
        if i.op == 'store' and tt.term(i.ops[1]) == addr:
            return True
        if i.id in dep:
            return True            # address expression re-evaluated: another element
        return False

    def visit(i):
        if i.id in dep:
            return None
        if i.op == 'load' and tt.term(i.ops[0]) == addr:
            for u in i.users:
                if u.op in ('icmp', 'phi'):
                    continue
                return u
        return None
    return _walk_from(f, freecall, stop, visit)


def r_dangling(ctx, prog, scope_units=None):
    """Outside destructors, a member (or table element) whose pointer is freed must be reassigned before the function returns
    a non-error status: otherwise the object keeps a dangling pointer that the destructor (or the next user) frees/uses again."""
    R = 'R-DANGLING'
    ctx.rule(R, 'a member or table element whose buffer is freed outside the destructor is reassigned (NULL or a new buffer) on every '
             'path to a non-error return', floor=5)
    n = 0
    for f in prog.all_functions:
        if not _in_scope(prog, f, scope_units):
            continue
        if f.name.endswith('release_codec_instance') or f.name in ('of_rs_2m_release', 'of_rs_free', 'of_mod2sparse_free',
                                                                     'of_mod2dense_free', 'of_free'):
            continue
        tt = Terms(f)
        for c in f.calls():
            if c.callee not in DEALLOCATORS and not SELF_FREEING.get(c.callee, False):
                continue
            if not c.args:
                continue
            t = tt.term(c.args[0])
            if t[0] not in ('load', 'load@') or t[1][0] not in ('field', 'elem'):
                continue
            addr = t[1]
            root = addr_root(addr)
            if root[0] not in ('field', 'elems'):
                continue          # only storage that outlives the call (members, elements of member tables)
            v = strip_casts(c.args[0])
            if v.k != 'i' or v.inst.op != 'load':
                continue
            # reassigned between load and free? (then the location does not hold the freed pointer)
            if v.inst.block is c.block and any(i.op == 'store' and tt.term(i.ops[1]) == addr
                                               for i in c.block.insts[v.inst.pos:c.pos]):
                continue
            n += 1
            dep = _ids_in(addr, set())
            reach_ok, removed = error_free_reach(prog, f)

            def stop(i, addr=addr, dep=dep):
                return (i.op == 'store' and tt.term(i.ops[1]) == addr) or i.id in dep

            bad = _walk_to_nonerror_ret(f, c, stop)
            ctx.instance(R, bad is None, c, '%s:%s' % (f.name, _addr_key(addr)),
                         '%s frees %s at %s and can return (%s) with the stale pointer still stored there' %
                         (f.name, show(('load', addr))[:60], c.loc(), bad.loc() if bad else ''))
    ctx.need(n >= 5, R, 'only %d member-free sites outside destructors' % n)


def _walk_to_nonerror_ret(f, start, stop_pred):
    """Is a return of a non-error status reachable from `start` without passing an instruction for which stop_pred holds?
    The status returned through a phi is judged per incoming edge."""
    work = [(start.block, start.pos + 1, None)]
    seen = set()
    while work:
        b, pos, pred = work.pop()
        stopped = False
        for i in b.insts[pos:]:
            if stop_pred(i):
                stopped = True
                break
            if i.op == 'ret':
                if not i.ops:
                    return i
                v = strip_casts(i.ops[0])
                val = const_of(i.ops[0])
                if v.k == 'i' and v.inst.op == 'phi' and v.inst.block is b and pred is not None:
                    for bid, x in v.inst.incoming:
                        if bid == pred.id:
                            val = const_of(x)
                            if val is None:
                                val = 'dyn'
                if val in (2, 3):
                    stopped = True
                    break
                return i
        if stopped:
            continue
        for s2 in b.succs:
            key = (b.id, s2.id)
            if key not in seen:
                seen.add(key)
                work.append((s2, 0, b))
    return None


def _all_error_phi(f, ret):
    for v, chain, r in ret_sources(f):
        if r is ret and const_of(v) not in (2, 3):
            return False
    return True


def _addr_key(addr):
    import re
    return re.sub(r'(phi:|#|icall:)\d+', '', show(('load', addr)))[:70]


# ------------------------------------------------------------------ R-FREELIST
def r_freelist(ctx, prog):
    R = 'R-FREELIST'
    ctx.rule(R, 'of_mod2sparse.next_free points into of_mod2sparse.blocks: any function that frees blocks of a matrix that stays '
             'alive must reset next_free before returning', floor=1)
    u = [x for x in prog.units if x.name == 'of_matrix_sparse.c']
    ctx.need(u, R, 'unit of_matrix_sparse.c missing')
    n = 0
    for f in u[0].functions.values():
        tt = Terms(f)
        fr = [c for c in f.calls() if c.callee in DEALLOCATORS and c.args and
              _mentions_field(tt.term(c.args[0]), 'blocks')]
        if not fr:
            continue
        n += 1
        if f.name == 'of_mod2sparse_free':
            # destructor: the object is dead afterwards; it must free rows, cols and every block (R-OWN-FIELD) -- nothing to reset
            ctx.ok(R, f, f.name + ':destructor')
            continue
        resets = [i for i in f.all_insts() if i.op == 'store' and addr_root(tt.term(i.ops[1])) == ('field', 'next_free')
                  and const_of(i.ops[0]) == 0]
        # every path from a block-free to a return passes a reset
        bad = None
        for c in fr:
            stop = set(i.block.id for i in resets if _after(f, c, i))
            reach = f.reachable(c.block, stop=[f.bmap[b] for b in stop])
            for r in f.rets():
                if r.block.id in reach and r.block.id not in stop:
                    # the return is reachable without passing through a reset block
                    if not any(i.block is r.block for i in resets):
                        bad = r
        ctx.instance(R, bad is None, bad or f, f.name + ':reset',
                     '%s frees the entry blocks of a live matrix but can return without resetting next_free: the next insertion '
                     'takes its entry from freed memory' % f.name)
    ctx.need(n >= 2, R, 'block-freeing functions not found')


def _after(f, a, b):
    if a.block is b.block:
        return b.pos > a.pos
    return b.block.id in f.reachable(a.block)


def _mentions_field(t, name):
    if not isinstance(t, tuple):
        return False
    if t[0] == 'field' and t[2] == name:
        return True
    return any(_mentions_field(x, name) for x in t[1:] if isinstance(x, tuple))
