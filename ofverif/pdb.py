"""Program database: build /repo to LLVM IR with the real build's flags, dump it
with ofir-dump, load it into Python objects (A1 of DESIGN.md).

Nothing here executes library code.  The build is: cmake (compile database) ->
clang -O0 -g -emit-llvm per library unit -> ofir-dump per unit -> JSON.
"""
import hashlib
import json
import os
import shlex
import shutil
import subprocess
import sys
import tempfile
from concurrent.futures import ThreadPoolExecutor

VERIF = os.path.dirname(os.path.dirname(os.path.abspath(__file__)))
OFIR_DUMP = os.path.join(VERIF, 'build', 'ofir-dump')
PINNED = os.path.join(VERIF, 'engine', 'pinned_functions.txt')
CACHE = os.environ.get('OFVERIF_CACHE') or os.path.join(VERIF, '.cache')


class AnalysisBroken(Exception):
    """The analysis cannot decide (exit 2): the tree does not compile to IR, an
    anchor vanished, a recogniser met code it does not understand."""

    def __init__(self, rule, reason):
        Exception.__init__(self, '%s: %s' % (rule, reason))
        self.rule = rule
        self.reason = reason


def repo_root():
    return os.environ.get('OFVERIF_REPO', '/repo')


# --------------------------------------------------------------------- build
def _tree_hash(repo, config):
    h = hashlib.sha256()
    h.update(config.encode())
    h.update(b'builder-v3')
    h.update(os.path.abspath(repo).encode())      # debug-info paths are absolute: one cache entry per checkout location
    pdir = os.path.join(VERIF, 'engine', 'probes')
    if os.path.isdir(pdir):
        for pf in sorted(os.listdir(pdir)):
            with open(os.path.join(pdir, pf), 'rb') as f:
                h.update(f.read())
    with open(OFIR_DUMP, 'rb') as f:
        h.update(hashlib.sha256(f.read()).digest())
    if os.path.exists(PINNED):
        with open(PINNED, 'rb') as f:
            h.update(f.read())
    roots = [os.path.join(repo, 'src'), os.path.join(repo, 'CMakeLists.txt'),
             os.path.join(repo, '.version'), os.path.join(repo, 'pc'),
             os.path.join(repo, 'applis'), os.path.join(repo, 'tests'),
             os.path.join(repo, 'tools')]
    files = []
    for r in roots:
        if os.path.isfile(r):
            files.append(r)
        else:
            for dp, dn, fn in os.walk(r):
                dn.sort()
                for f in sorted(fn):
                    if f == 'of_build_config.h':
                        continue    # written into the source tree by the project's own configure step (from .version and
                        #             CMakeLists.txt, both hashed): absent in a fresh checkout, present after the first configure
                    if f.endswith(('.c', '.h', '.txt', '.cmake', '.in')) or f == '.version':
                        files.append(os.path.join(dp, f))
    for p in files:
        h.update(os.path.relpath(p, repo).encode())
        with open(p, 'rb') as f:
            h.update(hashlib.sha256(f.read()).digest())
    return h.hexdigest()[:24]


def _run(cmd, **kw):
    return subprocess.run(cmd, stdout=subprocess.PIPE, stderr=subprocess.STDOUT,
                          universal_newlines=True, **kw)


def build_pdb(config='release', verbose=False):
    """Returns the directory holding one JSON file per library unit.
    config: 'release' (what the tests build) or 'debug' (-DDEBUG=ON => OF_DEBUG)."""
    repo = repo_root()
    if not os.path.exists(OFIR_DUMP):
        raise AnalysisBroken('ENGINE', 'build/ofir-dump missing: run MANIFEST.setup_cmd (make -C /verif)')
    key = _tree_hash(repo, config)
    out = os.path.join(CACHE, key)
    if os.path.exists(os.path.join(out, 'DONE')):
        return out
    os.makedirs(CACHE, exist_ok=True)
    # one builder per tree: concurrent checks of the same tree wait for it instead of configuring the project in parallel (the
    # project's configure step writes of_build_config.h into the source tree, so parallel configures race)
    import fcntl
    lock = open(os.path.join(CACHE, '.%s.lock' % key), 'w')
    fcntl.flock(lock, fcntl.LOCK_EX)
    try:
        if os.path.exists(os.path.join(out, 'DONE')):
            return out
        return _build_locked(config, verbose, repo, out)
    finally:
        fcntl.flock(lock, fcntl.LOCK_UN)
        lock.close()


def _build_locked(config, verbose, repo, out):
    work = tempfile.mkdtemp(prefix='ofverif-')
    try:
        cdb = os.path.join(work, 'cdb')
        args = ['cmake', '-G', 'Ninja', '-S', repo, '-B', cdb,
                '-DCMAKE_EXPORT_COMPILE_COMMANDS=ON',
                # do not let the configure step drop anything into the repo
                '-DLIBRARY_OUTPUT_PATH=' + os.path.join(work, 'bin'),
                '-DEXECUTABLE_OUTPUT_PATH=' + os.path.join(work, 'bin')]
        if config == 'debug':
            args.append('-DDEBUG:STRING=ON')
        r = _run(args)
        ccj = os.path.join(cdb, 'compile_commands.json')
        if r.returncode != 0 or not os.path.exists(ccj):
            raise AnalysisBroken('ENGINE', 'cmake failed:\n' + r.stdout[-2000:])
        entries = json.load(open(ccj))
        units = []
        seen = set()
        for e in entries:
            outp = e.get('output', '')
            if 'openfec.dir' not in outp and '/src/' not in e['file'].replace(repo, ''):
                continue
            if e['file'] in seen:
                continue
            seen.add(e['file'])
            units.append(e)
        if len(units) < 20:
            raise AnalysisBroken('ENGINE', 'only %d library units in the compile database' % len(units))
        tmp_out = os.path.join(work, 'pdb')
        os.makedirs(tmp_out)

        def one(e):
            toks = shlex.split(e['command'])
            flags = []
            skip = False
            for t in toks[1:]:
                if skip:
                    skip = False
                    continue
                if t in ('-o', '-MF', '-MT', '-MQ'):
                    skip = True
                    continue
                if t in ('-c', '-MD', '-MMD') or t.startswith('-O') or t == e['file']:
                    continue
                if t == '-g':
                    continue
                flags.append(t)
            rel = os.path.relpath(e['file'], repo)
            base = rel.replace('/', '__')
            bc = os.path.join(work, base + '.bc')
            cmd = ['clang'] + flags + ['-O0', '-g', '-fstandalone-debug', '-Xclang',
                                       '-disable-O0-optnone', '-emit-llvm', '-c',
                                       '-o', bc, e['file']]
            r = _run(cmd, cwd=e['directory'])
            if r.returncode != 0:
                return rel, 'clang failed on %s:\n%s' % (rel, r.stdout[-3000:]), None
            js = os.path.join(tmp_out, base + '.json')
            r = _run([OFIR_DUMP, bc, js] + ([PINNED] if os.path.exists(PINNED) else []))
            os.unlink(bc)
            if r.returncode != 0:
                return rel, 'ofir-dump failed on %s:\n%s' % (rel, r.stdout[-3000:]), None
            return rel, None, flags

        with ThreadPoolExecutor(max_workers=16) as ex:
            res = list(ex.map(one, units))
        errs = [m for _, m, _ in res if m]
        if errs:
            raise AnalysisBroken('ENGINE', errs[0])
        # probe units (best effort; see engine/probes): compiled with the library's flags
        probes = []
        pdir = os.path.join(VERIF, 'engine', 'probes')
        for pf in sorted(os.listdir(pdir)) if os.path.isdir(pdir) else []:
            if not pf.endswith('.c'):
                continue
            bc = os.path.join(work, 'probe__' + pf + '.bc')
            cmd = ['clang'] + [f for f in res[0][2] if f.startswith('-D')] + \
                  ['-I', os.path.join(repo, 'src'), '-O0', '-g', '-fstandalone-debug', '-Xclang',
                   '-disable-O0-optnone', '-emit-llvm', '-c', '-o', bc, os.path.join(pdir, pf)]
            r = _run(cmd)
            if r.returncode == 0:
                js = os.path.join(tmp_out, 'probe__' + pf + '.json')
                if _run([OFIR_DUMP, bc, js]).returncode == 0:
                    probes.append(pf)
        meta = {'config': config, 'repo': repo, 'units': [r for r, _, _ in res],
                'flags': res[0][2], 'probes': probes}
        json.dump(meta, open(os.path.join(tmp_out, 'META.json'), 'w'))
        open(os.path.join(tmp_out, 'DONE'), 'w').write('ok\n')
        # publish atomically; tolerate a concurrent builder having won the race
        try:
            os.rename(tmp_out, out)
        except OSError:
            if not os.path.exists(os.path.join(out, 'DONE')):
                shutil.rmtree(out, ignore_errors=True)
                os.rename(tmp_out, out)
        _prune_cache(keep=6)
        return out
    finally:
        shutil.rmtree(work, ignore_errors=True)


def _prune_cache(keep):
    try:
        ds = [os.path.join(CACHE, d) for d in os.listdir(CACHE)]
        ds = [d for d in ds if os.path.isdir(d)]
        ds.sort(key=lambda d: os.path.getmtime(d), reverse=True)
        import time
        for d in ds[keep:]:
            if time.time() - os.path.getmtime(d) > 1800:    # never prune what a concurrent run may be using
                shutil.rmtree(d, ignore_errors=True)
    except OSError:
        pass


# --------------------------------------------------------------------- model
_MIRROR = bool(os.environ.get('OFVERIF_MIRROR'))
_NEGATE = bool(os.environ.get('OFVERIF_NEGATE'))
_COMMUTE = os.environ.get('OFVERIF_COMMUTE') or ''
_NEG_PRED = {'eq': 'ne', 'ne': 'eq', 'ult': 'uge', 'uge': 'ult', 'ugt': 'ule', 'ule': 'ugt', 'slt': 'sge', 'sge': 'slt',
             'sgt': 'sle', 'sle': 'sgt'}
_SWAP_PRED = {'eq': 'eq', 'ne': 'ne', 'ult': 'ugt', 'ugt': 'ult', 'ule': 'uge', 'uge': 'ule', 'slt': 'sgt', 'sgt': 'slt',
              'sle': 'sge', 'sge': 'sle'}


class V(object):
    """An operand: k in i(nst) a(rg) c(onst int) cf null undef g(lobal) f(unction)
    ce (constant expression) b(lock) data zero agg other."""
    __slots__ = ('k', 'inst', 'idx', 'v', 'u', 'bits', 'name', 'ops', 'op', 'ty', 'off',
                 'block', 'raw')

    def __init__(self, d, fn=None):
        self.k = d['k']
        self.inst = None
        self.idx = None
        self.v = None
        self.u = None
        self.bits = None
        self.name = None
        self.ops = None
        self.op = None
        self.ty = d.get('ty')
        self.off = None
        self.block = None
        self.raw = d
        k = self.k
        if k == 'i':
            self.idx = d['id']
        elif k == 'a':
            self.idx = d['idx']
        elif k == 'c':
            self.v = d.get('v')
            if self.v is None:
                self.v = int(d['vs'])
            self.bits = d['bits']
            if 'u' in d:
                self.u = d['u']
            elif 'us' in d:
                self.u = int(d['us'])
            else:
                self.u = self.v
        elif k == 'cf':
            self.v = d['v']
        elif k in ('g', 'f'):
            self.name = d['name']
        elif k == 'ce':
            self.op = d['op']
            self.off = d.get('off')
            self.ops = [V(o, fn) for o in d['ops']]
        elif k == 'b':
            self.idx = d['id']

    def is_const(self):
        return self.k == 'c'

    def is_null(self):
        return self.k == 'null' or (self.k == 'c' and self.v == 0)

    def strip_global(self):
        """For a constant expression that is an address inside a global: (global name, byte offset)."""
        if self.k == 'g':
            return self.name, 0
        if self.k == 'ce' and self.op in ('getelementptr',) and self.ops[0].k == 'g' and self.off is not None:
            return self.ops[0].name, self.off
        if self.k == 'ce' and self.op in ('bitcast',):
            return self.ops[0].strip_global()
        return None, None

    def __repr__(self):
        if self.k == 'i':
            return '%%%d' % self.idx
        if self.k == 'a':
            return 'arg%d' % self.idx
        if self.k == 'c':
            return str(self.v)
        if self.k in ('g', 'f'):
            return '@' + self.name
        if self.k == 'ce':
            return '%s(%s)' % (self.op, ','.join(map(repr, self.ops)))
        return self.k


class Inst(object):
    __slots__ = ('id', 'op', 'ty', 'ops', 'line', 'col', 'file', 'pred', 'callee', 'calleev',
                 'args', 'argtys', 'path', 'srcty', 'incoming', 'cases', 'default', 'cond', 'scev',
                 'var', 'block', 'fn', 'pos', 'users', 'size', 'fromty', 'allocty', 'allocsize',
                 'raw')

    def loc(self):
        f = self.file or self.fn.file or '?'
        f = f.replace(repo_root().rstrip('/') + '/', '')
        return '%s:%s' % (f, self.line if self.line else '?')

    def __repr__(self):
        return '<%s %%%d %s @%s>' % (self.fn.name, self.id, self.op, self.loc())


class Block(object):
    __slots__ = ('id', 'insts', 'succs', 'preds', 'idom', 'ipdom', 'loop', 'fn', 'din', 'dout',
                 'pin', 'pout')

    def term(self):
        return self.insts[-1]

    def __repr__(self):
        return '<bb%d>' % self.id


class Loop(object):
    __slots__ = ('header', 'depth', 'parent', 'preheader', 'blocks', 'latches', 'exiting', 'exits',
                 'btc', 'btc_s', 'fn')


class Function(object):
    def __init__(self, d, unit):
        self.name = d['name']
        self.unit = unit
        self.internal = d['internal']
        self.ret = d['ret']
        self.vararg = d['vararg']
        self.file = d.get('file')
        self.line = d.get('line')
        self.params = d['params']
        self.blocks = []
        self.insts = {}
        self.loops = {}
        for bd in d['blocks']:
            b = Block()
            b.id = bd['id']
            b.fn = self
            b.succs = bd['succs']
            b.preds = []
            b.idom = bd['idom']
            b.ipdom = bd['ipdom']
            b.loop = bd.get('loop')
            b.insts = []
            for pos, idd in enumerate(bd['insts']):
                i = Inst()
                i.raw = idd
                i.id = idd['id']
                i.op = idd['op']
                i.ty = idd.get('ty')
                i.line = idd.get('line')
                i.col = idd.get('col')
                i.file = idd.get('file')
                i.pred = idd.get('pred')
                i.callee = idd.get('callee')
                if i.callee and i.callee.startswith('llvm.mem'):
                    # llvm.memcpy.p0i8.p0i8.i64 -> memcpy (same for memset/memmove): the libc name the source wrote
                    i.callee = i.callee.split('.')[1]
                i.calleev = V(idd['calleev'], self) if 'calleev' in idd else None
                i.args = [V(o, self) for o in idd['args']] if 'args' in idd else None
                i.argtys = idd.get('argtys')
                i.path = idd.get('path')
                i.srcty = idd.get('srcty')
                i.size = idd.get('size')
                i.fromty = idd.get('fromty')
                i.allocty = idd.get('allocty')
                i.allocsize = idd.get('allocsize')
                i.var = idd.get('var')
                i.scev = idd.get('scev')
                i.incoming = None
                i.cases = None
                i.default = None
                i.cond = None
                if 'incoming' in idd:
                    i.incoming = [(x['block'], V(x['v'], self)) for x in idd['incoming']]
                    i.ops = [v for _, v in i.incoming]
                elif 'cases' in idd:
                    i.cases = [(c['v'], c['block']) for c in idd['cases']]
                    i.default = idd['default']
                    i.cond = V(idd['cond'], self)
                    i.ops = [i.cond]
                elif i.args is not None:
                    i.ops = list(i.args)
                    if i.calleev is not None:
                        i.ops.append(i.calleev)
                else:
                    i.ops = [V(o, self) for o in idd.get('ops', [])]
                if _COMMUTE and i.op in ('add', 'mul', 'and', 'or', 'xor', 'fadd', 'fmul') and len(i.ops) == 2 and \
                        (_COMMUTE == '2' or (i.ops[0].k != 'c' and i.ops[1].k != 'c')):
                    # checker self-test: a + b spelt b + a (mode 2: also with a constant operand, `1 + i` for `i + 1`)
                    i.ops = [i.ops[1], i.ops[0]]
                if i.op in ('add', 'mul', 'and', 'or', 'xor', 'fadd', 'fmul') and len(i.ops) == 2 and \
                        i.ops[0].k in ('c', 'cf') and i.ops[1].k not in ('c', 'cf'):
                    # canonical form: `1 + i`, `31 & x` are `i + 1`, `x & 31` (clang -O0 keeps the source order)
                    i.ops = [i.ops[1], i.ops[0]]
                if i.op in ('udiv', 'urem') and len(i.ops) == 2 and i.ops[1].k == 'c' and i.ops[1].v and \
                        i.ops[1].v > 0 and (i.ops[1].v & (i.ops[1].v - 1)) == 0:
                    # canonical form: unsigned x / 2^k and x % 2^k are x >> k and x & (2^k - 1)
                    kk = i.ops[1].v.bit_length() - 1
                    cv = V({'k': 'c', 'v': kk if i.op == 'udiv' else i.ops[1].v - 1, 'bits': i.ops[1].bits, 'ty': i.ops[1].ty}, self)
                    i.ops = [i.ops[0], cv]
                    i.op = 'lshr' if i.op == 'udiv' else 'and'
                if i.op == 'icmp' and len(i.ops) == 2 and i.ops[0].k in ('c', 'null') and i.ops[1].k not in ('c', 'null'):
                    # canonical form: `0x7FFFFFFF < lo`, `NULL == p` are `lo > 0x7FFFFFFF`, `p == NULL`
                    i.ops = [i.ops[1], i.ops[0]]
                    i.pred = _SWAP_PRED.get(i.pred, i.pred)
                if _MIRROR and i.op == 'icmp' and len(i.ops) == 2 and i.ops[1].k not in ('c', 'null'):
                    # checker self-test (tools/metamorphic.py): every comparison between two non-constant operands spelt the
                    # other way round (a < b  ->  b > a) means the same program; no verdict may change
                    i.ops = [i.ops[1], i.ops[0]]
                    i.pred = _SWAP_PRED.get(i.pred, i.pred)
                if i.path:
                    for st in i.path:
                        if 'idx' in st:
                            st['idxv'] = V(st['idx'], self)
                i.block = b
                i.fn = self
                i.pos = pos
                i.users = []
                b.insts.append(i)
                self.insts[i.id] = i
            self.blocks.append(b)
        self.bmap = dict((b.id, b) for b in self.blocks)
        # resolve
        for b in self.blocks:
            b.succs = [self.bmap[s] for s in b.succs]
            for s in b.succs:
                s.preds.append(b)
        for b in self.blocks:
            b.idom = self.bmap.get(b.idom) if b.idom is not None and b.idom >= 0 else (None if b.idom == -1 else False)
            b.ipdom = self.bmap.get(b.ipdom) if b.ipdom is not None and b.ipdom >= 0 else (None if b.ipdom == -1 else False)
        for i in self.insts.values():
            self._resolve_ops(i, i.ops)
            if i.path:
                for st in i.path:
                    if 'idxv' in st:
                        self._resolve_ops(i, [st['idxv']])
        for ld in d['loops']:
            l = Loop()
            l.fn = self
            l.header = self.bmap[ld['header']]
            l.depth = ld['depth']
            l.parent = ld.get('parent')
            l.preheader = self.bmap[ld['preheader']] if 'preheader' in ld else None
            l.blocks = set(ld['blocks'])
            l.latches = [self.bmap[x] for x in ld['latches']]
            l.exiting = [self.bmap[x] for x in ld['exiting']]
            l.exits = [self.bmap[x] for x in ld['exits']]
            l.btc = ld['btc']
            l.btc_s = ld['btc_s']
            self.loops[ld['header']] = l
        for l in self.loops.values():
            l.parent = self.loops.get(l.parent) if l.parent is not None else None
        if _NEGATE:
            # checker self-test (tools/metamorphic.py): `if (a < b) X else Y` spelt `if (a >= b) Y else X` is the same program
            for b in self.blocks:
                t = b.insts[-1] if b.insts else None
                if t is None or t.op != 'br' or len(t.ops) != 3 or len(b.succs) != 2 or b.succs[0] is b.succs[1]:
                    continue
                c = t.ops[0]
                if c.k == 'i' and c.inst is not None and c.inst.op == 'icmp' and len(c.inst.users) == 1:
                    c.inst.pred = _NEG_PRED[c.inst.pred]
                    b.succs = [b.succs[1], b.succs[0]]
                    t.ops = [t.ops[0], t.ops[2], t.ops[1]]
        self._number_dom()

    def _resolve_ops(self, user, ops):
        for o in ops:
            if o.k == 'i':
                o.inst = self.insts.get(o.idx)
                if o.inst is not None and user is not None:
                    o.inst.users.append(user)
            elif o.k == 'b':
                o.block = self.bmap[o.idx]
            elif o.k == 'ce':
                self._resolve_ops(user, o.ops)

    def _number_dom(self):
        kids = {}
        root = None
        for b in self.blocks:
            if b.idom is None:
                root = b
            elif b.idom is not False:
                kids.setdefault(b.idom.id, []).append(b)
        c = [0]
        for b in self.blocks:
            b.din = b.dout = -1
            b.pin = b.pout = -1
        if root is None:
            root = self.blocks[0]
        stack = [(root, 0)]
        while stack:
            b, st = stack.pop()
            if st == 0:
                b.din = c[0]
                c[0] += 1
                stack.append((b, 1))
                for k in kids.get(b.id, []):
                    stack.append((k, 0))
            else:
                b.dout = c[0]
                c[0] += 1
        self.entry = root

    # ---- dominance
    def bdom(self, a, b):
        """block a dominates block b (reflexive)."""
        if a.din < 0 or b.din < 0:
            return False
        return a.din <= b.din and b.dout <= a.dout

    def dominates(self, i, j):
        """instruction i dominates instruction j (strict within a block)."""
        if i.block is j.block:
            return i.pos < j.pos
        return self.bdom(i.block, j.block)

    def pdom_block(self, a, b):
        """block a post-dominates block b (reflexive)."""
        x = b
        seen = 0
        while x is not None and x is not False and seen < 100000:
            if x is a:
                return True
            x = x.ipdom
            seen += 1
        return False

    def rets(self):
        return [b.term() for b in self.blocks if b.term().op == 'ret']

    def calls(self, name=None):
        for b in self.blocks:
            for i in b.insts:
                if i.op == 'call' and (name is None or i.callee == name):
                    yield i

    def all_insts(self):
        for b in self.blocks:
            for i in b.insts:
                yield i

    def reachable(self, start, removed=(), stop=()):
        """Blocks reachable from block `start` (inclusive) when the edges in `removed`
        ((src id, dst id) pairs) are deleted and blocks in `stop` are not traversed past."""
        removed = set(removed)
        stop = set(b.id for b in stop)
        seen = set([start.id])
        st = [start]
        while st:
            b = st.pop()
            if b.id in stop:
                continue
            for s in b.succs:
                if (b.id, s.id) in removed or s.id in seen:
                    continue
                seen.add(s.id)
                st.append(s)
        return seen

    def __repr__(self):
        return '<fn %s>' % self.name


class Unit(object):
    def __init__(self, path):
        d = json.load(open(path))
        self.path = path
        self.source = d['source']
        self.name = os.path.basename(self.source)
        self.structs = dict((s['name'], s) for s in d['structs'])
        self.distructs = dict((s['name'], s) for s in d['distructs'])
        self.globals = dict((g['name'], g) for g in d['globals'])
        self.decls = set(d['decls'])
        self.functions = {}
        for fd in d['functions']:
            self.functions[fd['name']] = Function(fd, self)


class Program(object):
    def __init__(self, pdbdir):
        self.dir = pdbdir
        self.meta = json.load(open(os.path.join(pdbdir, 'META.json')))
        self.units = []
        self.probes = []
        for f in sorted(os.listdir(pdbdir)):
            if f.endswith('.json') and f != 'META.json':
                if f.startswith('probe__'):
                    self.probes.append(Unit(os.path.join(pdbdir, f)))
                else:
                    self.units.append(Unit(os.path.join(pdbdir, f)))
        self.functions = {}
        self.static = {}
        self.all_functions = []
        for u in self.units:
            for f in u.functions.values():
                self.all_functions.append(f)
                if f.internal:
                    self.static[(u.name, f.name)] = f
                else:
                    if f.name in self.functions:
                        # duplicate external definition: keep first, remember
                        pass
                    self.functions[f.name] = f
        # struct layouts by debug-info name; must agree between units
        self.distructs = {}
        self.layout_conflicts = []
        for u in self.units:
            for n, s in u.distructs.items():
                o = self.distructs.get(n)
                if o is None:
                    self.distructs[n] = s
                elif [(m['name'], m['off'], m['size']) for m in o['members']] != \
                        [(m['name'], m['off'], m['size']) for m in s['members']]:
                    self.layout_conflicts.append((n, u.name))
        self.globals = {}
        for u in self.units:
            for n, g in u.globals.items():
                if g['decl']:
                    continue
                key = n if not g['internal'] else (u.name, n)
                self.globals[key] = dict(g, unit=u.name)

    def fn(self, name, unit=None):
        """Resolve a callee name as seen from `unit`."""
        if unit is not None:
            f = self.static.get((unit.name if hasattr(unit, 'name') else unit, name))
            if f is not None:
                return f
        f = self.functions.get(name)
        if f is not None:
            return f
        # unique static of that name anywhere
        c = [f for (u, n), f in self.static.items() if n == name]
        if len(c) == 1 and unit is None:
            return c[0]
        return None

    def need_fn(self, name, rule, unit=None):
        f = self.fn(name, unit)
        if f is None:
            raise AnalysisBroken(rule, 'anchor function %s not found in the compiled library' % name)
        return f

    def callee_fn(self, inst):
        if inst.callee is None:
            return None
        return self.fn(inst.callee, inst.fn.unit)

    def global_def(self, name, unit=None):
        if unit is not None:
            g = self.globals.get((unit.name if hasattr(unit, 'name') else unit, name))
            if g is not None:
                return g
        return self.globals.get(name)

    def callers(self, fname):
        out = []
        for f in self.all_functions:
            for c in f.calls(fname):
                if self.callee_fn(c) is not None and self.callee_fn(c).name == fname:
                    out.append(c)
        return out


_loaded = {}


def load(config='release'):
    if config in _loaded:
        return _loaded[config]
    d = build_pdb(config)
    p = Program(d)
    p.config = config
    _loaded[config] = p
    return p


if __name__ == '__main__':
    import time
    t = time.time()
    p = load(sys.argv[1] if len(sys.argv) > 1 else 'release')
    print('units', len(p.units), 'functions', len(p.all_functions), 'insts',
          sum(len(f.insts) for f in p.all_functions), 'structs', len(p.distructs),
          'time %.1fs' % (time.time() - t))
