"""Texts for MANIFEST.json: what each claimed check decides and on what trusted base."""
BASE = ('Trusted base: cmake compile database, clang 14 front end and -O0 code generation, LLVM mem2reg/loop-simplify/lcssa/'
        'dominators/ScalarEvolution, ofir-dump, the Python rule engine. Assumes the application follows the documented protocol. ')

NA = {
    'C20': 'The statement is about the numerical results of ceil/floor on doubles for all (L, E, B); no pairing, ordering, ownership or '
           'exhaustiveness clause of of_compute_blocking_struct is visible in the shape of the code, and a rule naming "ceil here, floor '
           'there" would be a frozen source fragment. Static analysis (this task\'s technique family) does not apply.',
}

CLAIMS = {
    'C14': dict(
        text='Exhaustive comparison of every entry of every compiled copy of the precomputed GF(2^4)/GF(2^8) log/exp/inv/mul/packed '
             'tables (read from the IR initialisers) with an independent reference implementation of the two fields; for the tables the '
             'GF(2^8) legacy codec generates at first use: structural rules only (primitive polynomial string selected, only the '
             'parameterless generators write the tables, no reader can run before initialisation).',
        design_ref='DESIGN.md section 5 (R-TABLES, R-POLY, R-INIT-BEFORE-USE) and section 6 C14',
        note='Decides the precomputed tables completely (finite data); for the generated tables decides only the structural clauses, not '
             'that the generator loops compute the right entries. ' + BASE + 'Reference field arithmetic: 30 lines in rules_tables.py.',
        technique='constant-data comparison over IR initialisers + who-may-write / init-before-use dominance rules'),
    'C19': dict(
        text='Seeding guard interval is exactly [1, 2^31-2]; abstract interpretation of the loop-free state update (linear forms over '
             'split atoms with the identity x = 2^k*(x>>k) + (x & (2^k-1)), coefficients reduced mod the discovered modulus, plus '
             'unsigned intervals) proves for every state that the next state is 16807*s mod (2^31-1), canonical and overflow-free; the '
             'returned value is RFC 5170\'s reference scaling expression (expression-tree rule); effect rules for both routines.',
        design_ref='DESIGN.md section 5 (R-SEEDRANGE, R-PRNG-STEP, R-FPSCALE, R-PRNG-EFFECT) and section 6 C19',
        note='Decides seeding range, the recurrence for all 2^31-2 states (congruence proof), the 10,000th-state check value (from the '
             'proven recurrence and extracted constants) and the shape of the scaling expression; does not decide the floating-point '
             'rounding claims. A failed proof is turned into a VIOLATION only with a concrete counterexample state on the extracted '
             'expression, otherwise ANALYSIS-BROKEN. ' + BASE,
        technique='guard-interval analysis + abstract interpretation (congruence/linear-form x interval domain) + expression-tree rule'),
}
