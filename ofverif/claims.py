"""Texts for MANIFEST.json: what each claimed check decides and on what trusted base."""
BASE = ('Trusted base: cmake compile database, clang 14 front end and -O0 code generation, LLVM mem2reg/loop-simplify/lcssa/'
        'dominators/ScalarEvolution, ofir-dump, the Python rule engine. Assumes the application follows the documented protocol. ')

NA = {
    'C20': 'The statement is about the numerical results of ceil/floor on doubles for all (L, E, B); no pairing, ordering, ownership or '
           'exhaustiveness clause of of_compute_blocking_struct is visible in the shape of the code, and a rule naming "ceil here, floor '
           'there" would be a frozen source fragment. Static analysis (this task\'s technique family) does not apply.',
}

CLAIMS = {
    'C14': dict(
        text='Exhaustive comparison of every entry of every compiled copy of the precomputed GF(2^4)/GF(2^8) log/exp/inv/mul/packed '
             'tables (read from the IR initialisers) with an independent reference implementation of the two fields; for the tables the '
             'GF(2^8) legacy codec generates at first use: structural rules only (primitive polynomial string selected, only the '
             'parameterless generators write the tables, the index ranges of their stores cover every entry of the exponent, inverse and '
             'multiplication tables (row 0 / column 0 cleared completely), every accumulated entry is initialised in the same run so that a second '
             'of_rs_init yields the same tables, no reader can run before initialisation).',
        design_ref='DESIGN.md section 5 (R-TABLES, R-POLY, R-INIT-BEFORE-USE), section 6 C14, 11.2 (R-ACCUM-INIT), 11.5 (R-TABLE-COVERAGE)',
        note='Decides the precomputed tables completely (finite data); for the generated tables decides only the structural clauses, not '
             'that the generator loops compute the right entries. ' + BASE + 'Reference field arithmetic: 30 lines in rules_tables.py.',
        technique='constant-data comparison over IR initialisers + who-may-write / init-before-use dominance rules'),
    'C19': dict(
        text='Seeding guard interval is exactly [1, 2^31-2]; abstract interpretation of the loop-free state update (linear forms over '
             'split atoms with the identity x = 2^k*(x>>k) + (x & (2^k-1)), coefficients reduced mod the discovered modulus, plus '
             'unsigned intervals) proves for every state that the next state is 16807*s mod (2^31-1), canonical and overflow-free; the '
             'returned value is RFC 5170\'s reference scaling expression (expression-tree rule); a forward error analysis of that '
             'expression tree (constants from the IR, standard IEEE-754 model) shows result < maxv for every state and every 32-bit maxv and '
             'equality with the exact floor whenever state*maxv < 2^53; effect rules for both routines.',
        design_ref='DESIGN.md section 5 (R-SEEDRANGE, R-PRNG-STEP, R-FPSCALE, R-PRNG-EFFECT), section 6 C19, 11.2 (R-FPRANGE)',
        note='Decides seeding range, the recurrence for all 2^31-2 states (congruence proof), the 10,000th-state check value (from the '
             'proven recurrence and extracted constants), the shape of the scaling expression and, under the IEEE-754 error model, the '
             'two rounding claims. A failed proof is turned into a VIOLATION only with a concrete counterexample state on the extracted '
             'expression, otherwise ANALYSIS-BROKEN. ' + BASE,
        technique='guard-interval analysis + abstract interpretation (congruence/linear-form x interval domain) + expression-tree rule'),
    'C01': dict(
        text='Structural necessary conditions, over all paths of the compiled library, of "a decoder never hands back a wrong source '
             'symbol": layout agreement of control blocks with the views generic code casts them to, dispatch agreement, duplicate '
             'suppression dominating every state update, equivalence of the two submission APIs, completion implies all k slots filled '
             '(monotone), and a closed classification of every store into a symbol table.',
        design_ref='DESIGN.md section 6 C01; rules R-LAYOUT, R-DISPATCH, R-DUP, R-SETAVAIL, R-COMPLETE, R-SRCSTORE, R-SRCPTR, R-SIBLINGS, R-INIT-ORDER, R-SYMTAB-WRITERS, R-IT-REGISTER, R-COPY-SCALE, R-CB, R-KEA (11.2)',
        note='Decides only these structural clauses; does NOT decide that decoded bytes are right (value-level). ' + BASE,
        technique='layout comparison from debug info; dominance/guard rules over the CFG; value-origin classification of stores'),
    'C02': dict(
        text='Both RS decoders run the matrix decode only with >= k distinct symbols, return FAILURE and never mark completion with fewer, '
             'trigger decoding when the k-th distinct symbol is counted, through either submission API; the GF tables are the documented '
             'fields; the three copies of the GF matrix algebra (inversion, Vandermonde inversion, product, addmul) and the two RS API '
             'layers agree event for event (R-SIBLINGS). Structural necessary conditions of the MDS property.',
        design_ref='DESIGN.md section 6 C02; rules R-RS-THRESHOLD, R-DUP, R-SETAVAIL, R-COMPLETE, R-TABLES, R-POLY, R-SIBLINGS, R-ENC-LOOP, R-NULLSLOT, R-CB, R-SRCSTORE, R-KEA on the GF kernels (11.2)',
        note='Does NOT decide that the generator is MDS or that inversion succeeds (value-level). n <= 2^m-1 is not enforced by the '
             'GF(2^m) codec: recorded as a known finding of C09. ' + BASE,
        technique='dominance/guard rules on the counters and the decode call; constant-data comparison'),
    'C04': dict(
        text='Mechanism only: duplicate suppression dominates every state update of the iterative decoder; completion is reported exactly '
             'when the scan over the k source slots finds none empty and never reverts; layout of the LDPC block matches the generic view.',
        design_ref='DESIGN.md section 6 C04; rules R-DUP, R-COMPLETE, R-LAYOUT, R-RETSET, R-IT-STEP3, R-CB, R-NULLFEED, R-FLAG-TRUTH, R-EXTRA-MARK, R-INIT-ORDER, R-SYMTAB-WRITERS, R-IT-REGISTER, R-COPY-SCALE (11.2)',
        note='First sentence of the claim: mechanism only. The heart of C04 (available set = peeling closure for every order) is a '
             'fixpoint statement that static analysis in reach cannot decide and is NOT claimed. ' + BASE,
        technique='dominance/guard rules; layout comparison'),
    'C10': dict(
        text='One rule per sentence: finish_decoding returns OK only on complete paths and FAILURE only after a negative completion test '
             '(error edges removed by an inter-procedural error-edge analysis); submission routines return only OK; completion predicate '
             'discipline; received source pointers are stored and copied out as given.',
        design_ref='DESIGN.md section 6 C10; rules R-FINISH-TRUTH, R-RETSET, R-COMPLETE, R-RS-THRESHOLD, R-SRCPTR, R-SRCSTORE, R-SIBLINGS, R-CB (11.2)',
        note='Decides status/completion agreement per path; does not decide that the counters/tables are right on every history. ' + BASE,
        technique='path rules over the CFG with error edges removed; return-set analysis; dominance of flag stores'),
    'C11': dict(
        text='Call-site contract at every call of the decoded-source-symbol callback (arguments, guard, ESI < k, result used as '
             'destination and table entry, NULL result cannot reach an error-only edge) and a closed classification showing that every '
             'decoded-source store goes through the callback-or-allocate choice into an empty slot.',
        design_ref='DESIGN.md section 6 C11; rules R-CB, R-SRCSTORE, R-COMPLETE',
        note='"Exactly one call per decoded symbol" is argued from once-per-site + empty-slot guards + monotone tables. ' + BASE,
        technique='call-site rules with value-flow of the callback result; store classification'),
    'C09': dict(
        text='Both directions of parameter validation for all codecs in scope. Rejection: the guards that hold on every OK path of '
             'of_set_fec_parameters (collected inter-procedurally: dispatcher restricted to the codec id, codec routine with '
             'store-forwarded fields, matrix constructor through its non-NULL returns) imply the advertised limits. Acceptance: assuming '
             'the advertised limits, every edge entering a rejection region of the dispatcher / codec routine / matrix constructor is '
             'refuted or is an allocation-failure edge (R-ACCEPT). Plus the argument '
             'guards (session, role, ESI range, NULL buffers) of the dispatch layer and encoders with pure failing edges.',
        design_ref='DESIGN.md section 6 C09 and 11.2; rules R-PARAM, R-ACCEPT, R-APIGUARD, R-RETDEF',
        note='Decides "outside the limits => rejected", "inside the limits => OK absent allocation failure" and the argument guards; '
             'does NOT decide that the accepted session is then usable (that is C01-C06). '
             'One known finding (RS-2^m accepts n > 2^m-1; cannot be repaired without breaking a pinned test). ' + BASE,
        technique='inter-procedural guard collection + interval reasoning + region enumeration over compared constants'),
    'C08': dict(
        text='Ownership analysis over the whole library: members that ever receive a library allocation are a subset of what each '
             'destructor releases whenever non-NULL (seven destructors; matrix members need both the matrix destructor and the struct '
             'free); element sweeps cover exactly the library-owned index ranges and never the application-owned source slots; a '
             'typestate walk proves every local allocation is freed/handed over on every non-error exit; no use after free, double '
             'free, or dangling member left behind by a function that frees a member; no member that may own a block is overwritten by '
             'a new allocation outside set-up (guarded, released first, transient, or single-shot).',
        design_ref='DESIGN.md section 6 C08; rules R-OWN-FIELD, R-OWN-ELEM, R-OWN-LOCAL, R-OWN-OVERWRITE (11.2), R-SYMTAB-WRITERS, R-UAF, R-DANGLING',
        note='Decides these clauses for all paths of all API-reachable functions; exits with an error status (allocation failure) are '
             'exempt (not protocol-conforming); of_finish_decoding is taken as final (a retry after FAILURE is outside the documented '
             'protocol and not analysed). ' + BASE,
        technique='ownership/effect analysis: owned-vs-released field sets, loop-range rules for sweeps, typestate dataflow for locals'),
    'C17': dict(
        text='Structural invariants the set semantics of the sparse matrix rests on: complete row+column linking of every fresh entry '
             'before it is returned, symmetric unlink and recycling in delete, free list never outliving its blocks, strict index guards '
             'against the allocated extents, complete release in the destructor, no use after free in the unit.',
        design_ref='DESIGN.md section 6 C17; rules R-DLINK, R-FREELIST, R-IDX-GUARD, R-OWN-FIELD, R-UAF, R-ROWCOL-SYMMETRY, R-BLOCKCHAIN, R-HINT-ORDER (11.5)',
        note='Does NOT decide set semantics under arbitrary operation sequences (ordered traversal, idempotent insert): that is a '
             'model-level property. ' + BASE,
        technique='link-pairing rule over stores, free-list rule, guard-vs-extent registry built from allocation sites'),
    'C18': dict(
        text='Bit addressing geometry of get/set/flip and the allocator is consistent with the word type; the byte popcount table is '
             'exact (exhaustive); the bit-serial popcount visits every bit; guarded indices are compared strictly with the dimension the '
             'indexed array was allocated with; destructor releases both allocations; the solver swaps right-hand sides with rows. '
             'The SWAR popcounts (of_popcount_3, of_hweight32) are proven equal to the population count for every input by abstract '
             'interpretation over integer linear forms of the input bits; the table popcount and the array popcount are decided '
             'structurally on top of the exact byte table (extent and once-only coverage for every size class).',
        design_ref='DESIGN.md section 6 C18 and 11.2; rules R-WORDGEOM, R-HW8, R-SWAR, R-HW32-TABLE, R-HW-ARRAY, R-BITLOOP, R-IDX-GUARD, '
                   'R-OWN-FIELD, R-PAIRSWAP, R-SOLVER-RANGES, R-CONVERT-RANGE, R-COPY-SCALE, R-SCRATCH-RESET, R-DENSE-ROWFILL, R-KEA (XOR kernels)',
        note='Does NOT decide equality with the bit-matrix model for all dimensions, nor that the solver '
             'returns the unique solution iff full column rank. ' + BASE,
        technique='constant-geometry consistency, constant-data comparison, bit-linear abstract interpretation, loop trip count, '
                  'guard-vs-extent registry, kernel extent analysis'),
    'C05': dict(
        text='"Depends only on (k, n, N1, seed), same for encoder and decoder, after any history" is decided by effect analysis of the matrix '
             'constructor and everything it calls, its call-site arguments and role independence, PRNG seeding dominating every draw '
             '(inter-procedurally), accepted seeds being valid PRNG seeds, and the Park-Miller / RFC scaling proofs of C19; the '
             'structurally visible part of the RFC 5170 shape (N1 distinct ones per source column, exact staircase) is checked from loop '
             'ranges and insertion arguments.',
        design_ref='DESIGN.md section 6 C05; rules R-PURE-PCHK, R-SRAND-DOM, R-PARAM(seed,N1), R-SEEDRANGE, R-PRNG-STEP, R-FPSCALE, R-STAIRCASE, R-COLFILL, R-ROWDEG2, R-VERBOSITY',
        note='Does NOT decide that the left-side fill reproduces RFC 5170\'s matrix entry for entry (choice list, replacement, extra-entry rule). ' + BASE,
        technique='effect/purity analysis, inter-procedural dominance of seeding, affine loop-range sets of inserted positions'),
    'C12': dict(
        text='Cross-session channels are exactly a reviewed table of writable globals/statics with their permitted writers; each is shown '
             'benign by its own rule (PRNG re-seeded before every draw with an accepted seed; RS tables written only by parameterless '
             'one-shot generators and initialised before use; trace level only controls print regions; libc rand() only permutes an order). '
             'A new writable static makes the check answer ANALYSIS-BROKEN.',
        design_ref='DESIGN.md section 6 C12; rules R-GLOBALS, R-VERBOSITY, R-SRAND-DOM, R-PRNG-EFFECT, R-PARAM(seed), R-TABLE-WRITERS, R-INIT-BEFORE-USE',
        note='Everything else a session touches is reached through its own control block (pointer parameters); heap/allocator state is '
             'outside the library. ' + BASE,
        technique='who-may-write rule over all stores to globals + per-global benignness rules'),
    'C15': dict(
        text='Whole statement, given a one-line lemma: the query answers true iff no extra entries and N1 even (truth table over path '
             'conditions), every entry beyond fill and staircase is counted into the marker, each source column has exactly N1 ones, the '
             'parity columns form the exact staircase, the decoder assumes a zero last symbol only under that answer (zero buffer of the '
             'symbol length, ESI n-1), and encoder and decoder build the same matrix.',
        design_ref='DESIGN.md section 6 C15; rules R-FLAG-TRUTH, R-EXTRA-MARK, R-COLFILL, R-STAIRCASE, R-NULLFEED, R-PURE-PCHK, R-INIT-ORDER (11.2)',
        note='The lemma (sum of all rows of H) is the only non-mechanical step and is written in DESIGN.md. ' + BASE,
        technique='truth-table enumeration over branch conditions, counting rule, affine loop-range sets, guard/dominance rules'),
    'C13': dict(
        text='Kernel extent analysis of the seven symbol kernels: an abstract interpreter over their IR (exact integers for size-derived '
             'scalars, (buffer, offset) pointers, per-nibble XOR-sets of provenance atoms for data -- no data value is computed, no '
             'library code runs) yields per size class and operand count the exact sets of bytes loaded/stored per buffer and the '
             'provenance formula of every stored byte, compared with the byte-wise definition; a syntactic quasi-affinity rule makes the '
             'finite range (sizes 0..64, operand counts 0..20; twice that in the thorough tier) sufficient for all sizes, counts and '
             'alignments.',
        design_ref='DESIGN.md section 6 C13 (A10 kernel extent analysis); rules R-KEA, R-KERNEL-SHAPE, R-TABLES',
        note='Whole statement of C13 given R-TABLES for the table contents (the packed GF(2^4) table identity is applied by the analysis). '
             'Unaligned 64-bit accesses are a platform matter. A kernel the interpreter cannot follow gives ANALYSIS-BROKEN. ' + BASE,
        technique='abstract interpretation over IR with a byte-provenance domain + quasi-affine periodicity argument'),
    'C03': dict(
        text='Mechanism only: the bulk submission API is n per-symbol submissions; every OK path of the ML routine passes, in order, '
             'the injection of all k source and all n-k repair slots, the system simplification, the dense conversion, the solver and '
             'the write-back of all k slots; status agrees with completion; the solver keeps right-hand sides with rows and starts from '
             'an empty scratch list; the pipeline gives up on dimension grounds only for rows < columns; the counters the solver '
             'relies on are not re-initialised after the null symbol was pre-loaded; the last-symbol-null claim is sound; the XOR '
             'kernels are byte-exact.',
        design_ref='DESIGN.md section 6 C03; rules R-SETAVAIL, R-ML-PIPELINE, R-FINISH-TRUTH, R-PAIRSWAP, R-SCRATCH-RESET, R-ML-GIVEUP, R-INIT-ORDER, R-FLAG-TRUTH, R-EXTRA-MARK, R-NULLFEED, R-KEA on the XOR kernels, R-SOLVER-RANGES, R-CONVERT-RANGE, R-CB, R-SRCSTORE, R-SYMTAB-WRITERS (11.2, 11.5)',
        note='First sentence: mechanism only. "Succeeds iff uniquely determined" is a rank condition with no structural clause; it is '
             'NOT claimed. ' + BASE,
        technique='must-pass-through ordering over the CFG, loop-range rules, dominance'),
    'C06': dict(
        text='The fields both RS codecs compute in are the documented ones (precondition of codec 1 / codec 2 byte compatibility); '
             'encoders never write a source buffer; a NULL output slot is replaced by a library allocation before use; the output is '
             'zeroed and exactly the k scaled sources (RS) / the other entries of the equation (LDPC) are accumulated; k <= esi < n; the '
             'accumulation kernels are exact (kernel extent analysis); the LDPC-Staircase matrix is built by the RFC 5170 steps '
             '(N1 entries per source column, every row topped up to two entries, staircase) from the proven Park-Miller generator.',
        design_ref='DESIGN.md section 6 C06; rules R-TABLES, R-POLY, R-RO-FLOW, R-NULLSLOT, R-ENC-LOOP, R-APIGUARD, R-DISPATCH, R-KEA, '
                   'R-SIBLINGS, R-COLFILL, R-ROWDEG2, R-STAIRCASE, R-SRAND-DOM, R-PRNG-STEP, R-FPSCALE (11.2)',
        note='Does NOT decide the generator coefficients (that RS repair symbols are the Vandermonde-systematic ones). ' + BASE,
        technique='constant-data comparison, write-sink flow analysis with callee summaries, dominance, loop-range rules, KEA'),
    'C07': dict(
        text='Argument guards dominate every table access; no write sink (libc writers, kernels, writing callees by summary) targets a '
             'received symbol or encoder source (RS decoding provably works on private copies); NULL output slots are filled first; '
             'guarded indices are strict and against the allocated extent (registry from allocation sites); no use after free / dangling '
             'member / stale free list; control-block layouts match the generic views; the kernels touch exactly [0, size); the RS '
             'decoders start their scan for k non-NULL table entries only when k distinct symbols were counted (duplicate suppression, '
             'counters, threshold).',
        design_ref='DESIGN.md section 6 C07; rules R-APIGUARD, R-RO-FLOW, R-NULLSLOT, R-IDX-GUARD, R-UAF, R-DANGLING, R-FREELIST, R-LAYOUT, '
                   'R-SRCPTR, R-KEA, R-DUP, R-COUNT, R-RS-THRESHOLD, R-INIT-ORDER, R-SYMTAB-WRITERS (11.5)',
        note='Does NOT decide bounds of accesses whose index is read out of the sparse matrix or an index table, heap layout, alignment '
             'traps. ' + BASE,
        technique='guard/dominance rules, flow of written pointers with callee summaries, typestate walks, extent registry, KEA'),
    'C16': dict(
        text='For codec 5: layout agreement with the linear-binary view, dispatch, guards, bulk submission = per-symbol submissions '
             '(sources first), completion scan, duplicate suppression, table-store classification, NULL-slot contract, encoder '
             'accumulation, read-only sources, release completeness, and the mixed-radix rule showing that row checks and column checks '
             'of the generated matrix each cover every source symbol exactly once.',
        design_ref='DESIGN.md section 6 C16; rules R-LAYOUT, R-DISPATCH, R-APIGUARD, R-SETAVAIL, R-COMPLETE, R-DUP, R-SRCSTORE, R-SRCPTR, R-NULLSLOT, R-ENC-LOOP, R-RO-FLOW, R-2D-RADIX, R-OWN-FIELD, R-OWN-ELEM, R-OWN-LOCAL, R-INIT-ORDER, R-2D-DIVISIBLE (11.2)',
        note='Does NOT decide completeness of erasure recovery nor that the factorisation search accepts exactly the right (k, n-k). Five '
             'defects of this codec were repaired (see known_findings.json "fixed"). ' + BASE,
        technique='layout comparison, dominance, loop-range and affine-stride (mixed radix) rules, ownership analysis'),
}
