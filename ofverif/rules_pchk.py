"""LDPC matrix-construction rules (C05, C12, C15): R-PURE-PCHK, R-GLOBALS, R-VERBOSITY, R-COLFILL, R-STAIRCASE,
R-EXTRA-MARK, R-FLAG-TRUTH, R-NULLFEED."""
from .ir import norm_atom, Terms, strip_casts, const_of, atoms_at, has_atom, show, ret_sources, loop_range, out_edges, cond_atoms, \
    verbosity_regions_pure, contradicted_edges, calls_in_loop, term_mentions_global
from .effects import effects, addr_root, PURE_EXTERNAL, ALLOCATORS, DEALLOCATORS
from .rules_decode import fld, L, is_field_load, _V

PCHK = 'of_create_pchck_matrix_rfc5170_compliant'
LDPC_SET = 'of_ldpc_staircase_set_fec_parameters'
LDPC_GET = 'of_ldpc_staircase_get_control_parameter'
FLAG_TYPE = 1024       # OF_CRTL_LDPC_STAIRCASE_IS_LAST_SYMBOL_NULL (value read from the switch; checked to exist)


def _matrix_term(f, tt):
    cs = [c for c in f.calls('of_mod2sparse_allocate')]
    return ('call', 'of_mod2sparse_allocate', cs[0].id) if len(cs) == 1 else None


# ------------------------------------------------------------------ R-PURE-PCHK
def r_pure_pchk(ctx, prog):
    R = 'R-PURE-PCHK'
    ctx.rule(R, 'the LDPC-Staircase matrix constructor reads only its parameters, the PRNG state after seeding it itself and the trace '
             'level; it writes only the matrix it allocates, its scratch list, the PRNG state and the extra-entries marker; its call '
             'site passes exactly (n-k, n, N1, seed, cb) and does not depend on the codec role', floor=1)
    f = prog.need_fn(PCHK, R)
    tt = Terms(f)
    eff = effects(prog)
    e = eff.of(f)
    bad_rg = sorted(g for g in e['rg'] if g not in ('of_seed', 'of_verbosity', 'stderr', 'stdout') and not g.startswith('.str')
                    and not g.startswith('__FUNCTION__'))
    ctx.instance(R, not bad_rg, f, 'pchk:globals-read', '%s (or a callee) reads global(s) %s: the matrix would depend on more than '
                 '(k, n, N1, seed)' % (PCHK, bad_rg))
    bad_w = sorted(str(x) for x in e['w'] if x[0] == 'global' and x[1] not in ('of_seed',))
    ctx.instance(R, not bad_w, f, 'pchk:globals-written', '%s (or a callee) writes global(s) %s' % (PCHK, bad_w))
    bad_ext = sorted(x for x in e['ext'] if x not in PURE_EXTERNAL and x not in ALLOCATORS and x not in DEALLOCATORS
                     and x not in ('memset', 'memcpy'))
    ctx.instance(R, not bad_ext and not e['indirect'], f, 'pchk:external', '%s reaches external function(s) %s' % (PCHK, bad_ext))
    # direct reads of the control block: none; direct writes: only the marker
    cb_reads = [i for i in f.all_insts() if i.op == 'load' and _rooted_at_param(tt.term(i.ops[0]), 4)]
    ctx.instance(R, not cb_reads, cb_reads[0] if cb_reads else f, 'pchk:cb-read',
                 '%s reads the session control block: the matrix would depend on session state' % PCHK)
    cb_w = [i for i in f.all_insts() if i.op == 'store' and _rooted_at_param(tt.term(i.ops[1]), 4) and
            addr_root(tt.term(i.ops[1])) != ('field', 'extra_entries_added_in_pchk')]
    ctx.instance(R, not cb_w, cb_w[0] if cb_w else f, 'pchk:cb-write', '%s writes session state other than the extra-entries marker' % PCHK)
    # the rand() draws take arguments computed from the parameters only
    for c in f.calls('of_rfc5170_rand'):
        t = tt.term(c.args[0])
        ok = _only_params_and_locals(t)
        ctx.instance(R, ok, c, 'pchk:draw-range', 'PRNG range %s depends on something else than the parameters' % show(t)[:80])
    # call site
    g = prog.need_fn(LDPC_SET, R)
    gt = Terms(g, forward=True)
    cs = [c for c in g.calls(PCHK)]
    ctx.need(len(cs) == 1, R, '%s does not call %s exactly once' % (LDPC_SET, PCHK))
    c = cs[0]
    st = 'of_ldpc_staircase_cb'
    pst = 'of_ldpc_parameters'
    k = L(fld(prog, pst, 'nb_source_symbols', ('param', 1)))
    r = L(fld(prog, pst, 'nb_repair_symbols', ('param', 1)))
    n1 = L(fld(prog, pst, 'N1', ('param', 1)))
    seed = L(fld(prog, pst, 'prng_seed', ('param', 1)))
    args = [gt.term(a) for a in c.args]
    want = [r, ('bin', 'add', k, r), n1, seed, ('param', 0)]
    ok = len(args) == 5 and args[0] == want[0] and args[1] in (want[1], ('bin', 'add', r, k)) and args[2] == want[2] and \
        args[3] == want[3] and args[4] == want[4]
    ctx.instance(R, ok, c, 'pchk:callsite-args',
                 '%s builds the matrix with (%s); must be (nb_repair_symbols, nb_source+nb_repair, N1, prng_seed, cb) of the '
                 'application\'s parameters' % (LDPC_SET, ', '.join(show(a)[:40] for a in args)))
    role = [a for a in atoms_at(g, gt, c.block) if _mentions_field(a, 'codec_type')]
    ctx.instance(R, not role, c, 'pchk:callsite-role', 'matrix construction is conditional on the codec role: encoder and decoder '
                 'sessions would not build the same code')


def _rooted_at_param(t, idx):
    while isinstance(t, tuple):
        if t == ('param', idx):
            return True
        if t[0] in ('field', 'elem', 'load', 'load@'):
            t = t[1]
        else:
            return False
    return False


def _only_params_and_locals(t):
    if not isinstance(t, tuple):
        return True
    if t[0] in ('load', 'load@', 'global', 'goff', 'call', 'icall'):
        return False
    return all(_only_params_and_locals(x) for x in t[1:] if isinstance(x, tuple))


def _mentions_field(t, name):
    if not isinstance(t, tuple):
        return False
    if t[0] == 'field' and t[2] == name:
        return True
    return any(_mentions_field(x, name) for x in t[1:] if isinstance(x, tuple))


# ------------------------------------------------------------------ R-GLOBALS / R-VERBOSITY
REVIEWED_GLOBALS = {
    # name: (allowed writer functions, why benign across sessions)
    'of_seed': (('of_rfc5170_srand', 'of_rfc5170_rand'), 're-seeded from the session\'s own seed before every draw (R-SRAND-DOM, R-PARAM seed)'),
    'of_verbosity': (('of_create_codec_instance',), 'only controls regions made of print calls (R-VERBOSITY)'),
    'of_rs_initialized': (('of_rs_init',), 'one-shot initialisation flag of constant tables (R-INIT-BEFORE-USE)'),
    'of_gf_mul_table': (('of_rs_init_mul_table',), 'constant after initialisation (R-TABLE-WRITERS)'),
    'of_rs_gf_exp': (('of_generate_gf',), 'constant after initialisation'),
    'of_rs_gf_log': (('of_generate_gf',), 'constant after initialisation'),
    'of_rs_inverse': (('of_generate_gf',), 'constant after initialisation'),
    'of_hw8table': ((), 'never written'),
    'of_rs_allPp': ((), 'never written'),
    'of_more_about.of_version_string': ((), 'never written'),
    'of_more_about.of_copyrights_string': ((), 'never written'),
}


def r_globals(ctx, prog):
    R = 'R-GLOBALS'
    ctx.rule(R, 'the writable globals/statics of the library are exactly the reviewed ones, each written only by its reviewed writers; '
             'libc rand() is used only to permute an injection order', floor=1)
    eff = effects(prog)
    seen = set()
    for u in prog.units:
        for name, g in sorted(u.globals.items()):
            if g['decl'] or g['const'] or name.startswith('.str') or name.startswith('__FUNCTION__'):
                continue
            seen.add(name)
            if name not in REVIEWED_GLOBALS:
                # a value computed from a session (a parameter, a member, an allocation made for it) stored into a static that
                # code reads back is, by construction, a channel between sessions; only constant stores leave the question open
                dep = None
                for f2 in u.functions.values():
                    t2 = Terms(f2)
                    for i2 in f2.all_insts():
                        if i2.op == 'store':
                            a2 = t2.term(i2.ops[1])
                            r2 = addr_root(a2)
                            if r2 == ('global', name) and t2.term(i2.ops[0])[0] != 'const':
                                dep = i2
                if dep is not None:
                    ctx.fail(R, dep, 'new-static:%s' % name,
                             'new writable static %s receives a session-dependent value (%s) in %s: state left by one session is '
                             'seen by the next one' % (name, show(Terms(dep.fn).term(dep.ops[0]))[:60], dep.fn.name))
                    continue
                ctx.broken(R, 'new writable global/static %s in %s: whether sessions can influence each other through it cannot be '
                              'decided statically (review it and add it to the table)' % (name, u.name))
    for f in prog.all_functions:
        tt = Terms(f)
        for i in f.all_insts():
            if i.op == 'store':
                a = tt.term(i.ops[1])
                root = addr_root(a)
                if root[0] == 'global' and root[1] in REVIEWED_GLOBALS:
                    okw = f.name in REVIEWED_GLOBALS[root[1]][0]
                    ctx.instance(R, okw, i, 'write:%s:%s' % (root[1], f.name),
                                 '%s writes global %s (reviewed writers: %s): a channel between sessions' %
                                 (f.name, root[1], list(REVIEWED_GLOBALS[root[1]][0]) or 'none'))
            if i.op == 'call' and i.callee in ('memcpy', 'memset', 'memmove', 'bcopy', 'bzero'):
                t = tt.term(i.args[0])
                root = addr_root(t) if t[0] != 'global' else ('global', t[1])
                if root[0] == 'global' and root[1] in REVIEWED_GLOBALS:
                    # a reviewed writer may also write through libc (a generator clearing part of its own table)
                    okw = f.name in REVIEWED_GLOBALS[root[1]][0] and i.callee in ('memset', 'bzero', 'memcpy') and \
                        (i.callee != 'bcopy')
                    ctx.instance(R, okw, i, 'write:%s:%s' % (root[1], f.name), '%s overwrites global %s' % (f.name, root[1]))
    for name in sorted(REVIEWED_GLOBALS):
        if name in seen:
            ctx.ok(R, (name, '-'), 'reviewed:' + name, REVIEWED_GLOBALS[name][1])
    # libc rand()
    for f in prog.all_functions:
        for c in f.calls('rand'):
            ok = True
            why = ''
            # value may only flow into an index of a local permutation array
            work = [c]
            seen_i = set()
            while work:
                x = work.pop()
                for u2 in x.users:
                    if u2.id in seen_i:
                        continue
                    seen_i.add(u2.id)
                    if u2.op in ('srem', 'urem', 'sext', 'zext', 'trunc', 'and'):
                        work.append(u2)
                    elif u2.op == 'getelementptr':
                        tt = Terms(f)
                        base = tt.term(u2.ops[0])
                        local_array = base[0] == 'call' and base[1] in ALLOCATORS
                        if not local_array and base[0] == 'param' and f.internal:
                            # a static helper that shuffles the array it is given: every caller passes a fresh local array
                            sites = prog.callers(f.name)
                            local_array = bool(sites) and all(
                                (lambda t0: t0[0] == 'call' and t0[1] in ALLOCATORS)(Terms(c2.fn).term(c2.args[base[1]]))
                                for c2 in sites if base[1] < len(c2.args))
                        if not local_array:
                            ok = False
                            why = 'indexes %s' % show(base)
                    else:
                        ok = False
                        why = 'flows into %s at %s' % (u2.op, u2.loc())
            ctx.instance(R, ok, c, 'rand:%s' % f.name, 'libc rand() in %s %s: it is process-global state shared by all sessions and '
                         'may only permute a processing order' % (f.name, why))
    for f in prog.all_functions:
        for c in f.calls('srand'):
            ctx.fail(R, c, 'srand:%s' % f.name, '%s reseeds the process-wide libc PRNG' % f.name)


def r_verbosity(ctx, prog):
    R = 'R-VERBOSITY'
    ctx.rule(R, 'the global trace level only controls regions consisting of print calls', floor=1)
    n = 0
    eff = effects(prog)

    def pure_call(i):
        # a library routine that only prints (statistics dumps of the OF_DEBUG build): writes nothing but its own locals
        g = prog.callee_fn(i)
        if g is None:
            return False
        e = eff.of(g)
        w = [x for x in e['w'] if x[0] not in ('local', 'viaLocal')]
        from .effects import LIBC_WRITERS
        return not w and not e['indirect'] and all(x in PURE_EXTERNAL or x in LIBC_WRITERS for x in e['ext'])

    for f in prog.all_functions:
        ok, bad, nb = verbosity_regions_pure(f, pure_call=pure_call)
        if nb == 0 and ok:
            continue
        n += 1
        ctx.instance(R, ok, bad or f, 'verbosity:%s' % f.name,
                     '%s: a branch on of_verbosity controls something else than printing (%s)' % (f.name, bad.op if bad else ''))
    # uses of of_verbosity other than in branch conditions / print arguments
    for f in prog.all_functions:
        tt = Terms(f)
        for i in f.all_insts():
            if i.op == 'store' and term_mentions_global(tt.term(i.ops[0]), 'of_verbosity'):
                ctx.fail(R, i, 'verbosity-stored:%s' % f.name, '%s stores a value derived from of_verbosity' % f.name)
    ctx.need(n >= 1, R, 'no branch on of_verbosity found')


# ------------------------------------------------------------------ matrix shape
def _inserts(f, tt, M):
    return [c for c in f.calls('of_mod2sparse_insert') if tt.term(c.args[0]) == M]


def r_colfill(ctx, prog):
    R = 'R-COLFILL'
    ctx.rule(R, 'the left side of H is filled column by column over exactly the source columns n-k .. n-1, N1 times per column, each '
             'time inserting exactly one entry into that column at a row just tested absent: every source column gets exactly N1 ones',
             floor=1)
    f = prog.need_fn(PCHK, R)
    tt = Terms(f)
    M = _matrix_term(f, tt)
    ctx.need(M is not None, R, 'matrix allocation not found')
    # the (j, k) loop nest
    nest = None
    for lp in f.loops.values():
        lr = loop_range(f, lp, tt)
        if lr is None or lp.depth != 1:
            continue
        if lr.start == ('param', 0) and lr.bound == ('param', 1) and lr.pred == 'ult' and lr.step == 1:
            inner = [l2 for l2 in f.loops.values() if l2.parent is lp]
            for l2 in inner:
                lr2 = loop_range(f, l2, tt)
                if lr2 is not None and lr2.start == ('const', 0) and lr2.bound == ('param', 2) and lr2.pred == 'ult' and lr2.step == 1:
                    nest = (lp, lr, l2, lr2)
    if nest is None:
        ctx.fail(R, f, 'colfill:nest', 'no loop nest "for each column j in [n-k, n) / N1 times" found: the left side of H is not '
                 'filled with N1 entries per source column')
        return
    lp, lr, l2, lr2 = nest
    ctx.ok(R, lr.cmp, 'colfill:nest', 'j in [nb_rows, nb_cols), k in [0, left_degree)')
    j = tt.term(_V(lr.iv))
    ins = [c for c in calls_in_loop(f, l2) if c.callee == 'of_mod2sparse_insert' and tt.term(c.args[0]) == M]
    ctx.need(ins, R, 'no insertion in the fill loop')
    for c in ins:
        row, col = tt.term(c.args[1]), tt.term(c.args[2])
        atoms = atoms_at(f, tt, c.block)
        absent = any(a[0] == 'cmp' and a[1] == 'eq' and a[3] == ('const', 0) and a[2][0] == 'call' and a[2][1] == 'of_mod2sparse_find'
                     and _find_args(f, tt, a[2][2]) == (M, row, col) for a in atoms)
        ctx.instance(R, col == j and absent, c, 'colfill:insert', 'fill insertion at (%s, %s): must go into the current column j at a row '
                     'for which of_mod2sparse_find just returned NULL (otherwise a column gets fewer than N1 distinct ones)' %
                     (show(row)[:40], show(col)[:20]))
    # exactly one insertion per inner iteration: every path header->latch of the k loop passes exactly one insert block
    ib = set(c.block.id for c in ins)
    hdr = l2.header
    latch = l2.latches[0]
    body = lr2.body
    removed = []
    for b in f.blocks:
        if b.id in ib:
            for s in b.succs:
                removed.append((b.id, s.id))
    reach_wo = f.reachable(body, removed=removed, stop=[hdr])
    must = latch.id not in reach_wo or all(latch.id in ib for _ in [0])
    twice = False
    for c in ins:
        for s in c.block.succs:
            r2 = f.reachable(s, stop=[hdr])
            if any(b2 in r2 for b2 in ib):
                twice = True
    # pairing: the left limit t of the choice list advances exactly when an entry of u[] has been consumed (replaced by u[t])
    alloc_u = [c for c in f.calls() if c.callee in ('of_calloc', 'calloc')]
    for au in alloc_u:
        ut = ('call', au.callee, au.id)
        repl = [i for i in f.all_insts() if i.op == 'store' and tt.term(i.ops[1])[0] == 'elem' and tt.term(i.ops[1])[1] == ut
                and tt.term(i.ops[0])[0] in ('load', 'load@') and tt.term(i.ops[0])[1][0] == 'elem' and tt.term(i.ops[0])[1][1] == ut
                and i.block.loop is not None and i.block.id in l2.blocks]
        for rs in repl:
            tterm = tt.term(rs.ops[0])[1][2]          # the index t
            incs = [i for i in f.all_insts() if i.op == 'add' and const_of(i.ops[1]) == 1 and tt.term(i.ops[0]) == tterm]
            okp = bool(incs) and all(i.block is rs.block for i in incs)
            ctx.instance(R, okp, rs, 'colfill:choice-list-pairing',
                         'the left limit of the choice list is advanced %s: it must advance exactly when an entry of the list has been '
                         'consumed (replaced by u[t]), as in RFC 5170' % ('outside the branch that consumes an entry' if incs else 'never'))
    ctx.instance(R, must and not twice, ins[0], 'colfill:exactly-one',
                 'one iteration of the N1 loop can complete %s: a column would not get exactly N1 ones' %
                 ('without inserting' if not must else 'after inserting twice'))


def _find_args(f, tt, call_id):
    c = f.insts[call_id]
    return tuple(tt.term(a) for a in c.args[:3])


def r_staircase(ctx, prog):
    R = 'R-STAIRCASE'
    ctx.rule(R, 'outside the column fill and the extra-entry loop the constructor inserts exactly the staircase: (i,i) for 0 <= i < n-k '
             'and (i,i-1) for 1 <= i < n-k, computed from the insertion arguments as affine functions of the loop counter and the loop '
             'range', floor=1)
    f = prog.need_fn(PCHK, R)
    tt = Terms(f)
    M = _matrix_term(f, tt)
    ctx.need(M is not None, R, 'matrix allocation not found')
    diag = []      # intervals [lo, hi) of i with (i, i)
    sub = []       # intervals of i with (i, i-1)
    other = []
    for c in _inserts(f, tt, M):
        row, col = tt.term(c.args[1]), tt.term(c.args[2])
        lp = f.loops.get(c.block.loop) if c.block.loop is not None else None
        if lp is None:
            if row[0] == 'const' and col[0] == 'const':
                if row[1] == col[1]:
                    diag.append((row[1], row[1] + 1))
                elif row[1] == col[1] + 1:
                    sub.append((row[1], row[1] + 1))
                else:
                    other.append(c)
            else:
                other.append(c)
            continue
        lr = loop_range(f, lp, tt)
        if lr is None:
            continue
        iv = tt.term(_V(lr.iv))
        ro, co = _affine(row, iv), _affine(col, iv)
        if ro is None or co is None:
            continue         # data-dependent position: the fill / extra entries (other rules)
        boff = _affine(lr.bound, ('param', 0))
        if lr.step != 1 or lr.pred not in ('ult', 'slt') or lr.start[0] != 'const' or boff is None:
            other.append(c)
            continue
        lo = lr.start[1] + ro
        hi = ('R', ro + boff)
        if ro == co:
            diag.append((lo, hi))
        elif ro == co + 1:
            sub.append((lo, hi))
        else:
            other.append(c)
    def covers(ivals, start):
        # union of [const, const+1) pieces and one [a, R+ro) piece must be exactly [start, R)
        pts = sorted(x for x in ivals if not isinstance(x[1], tuple))
        sym = [x for x in ivals if isinstance(x[1], tuple)]
        if len(sym) != 1 or sym[0][1][1] != 0:
            return False
        cur = start
        for lo, hi in pts:
            if lo != cur:
                return False
            cur = hi
        return sym[0][0] == cur
    okd = covers(diag, 0)
    oks = covers(sub, 1)
    ctx.instance(R, okd, f, 'staircase:diagonal', 'diagonal entries (i,i) inserted for %s; the staircase needs 0 <= i < nb_rows' % diag)
    ctx.instance(R, oks, f, 'staircase:subdiagonal', 'sub-diagonal entries (i,i-1) inserted for %s; the staircase needs 1 <= i < nb_rows' % sub)
    ctx.instance(R, not other, other[0] if other else f, 'staircase:nothing-else',
                 'an insertion at a fixed position outside the staircase')


def _affine(t, iv):
    """t = iv + c -> c, else None"""
    if t == iv:
        return 0
    if t[0] == 'bin' and t[1] in ('add', 'sub') and t[2] == iv and t[3][0] == 'const':
        return t[3][1] if t[1] == 'add' else -t[3][1]
    if t[0] == 'bin' and t[1] == 'add' and t[3] == iv and t[2][0] == 'const':
        return t[2][1]
    return None


def r_extra_mark(ctx, prog):
    R = 'R-EXTRA-MARK'
    ctx.rule(R, 'every insertion that is neither the column fill nor the staircase (the extra entries for rows of weight < 2) is counted, '
             'and the marker stored in the control block is true exactly when that count is at least one', floor=1)
    f = prog.need_fn(PCHK, R)
    tt = Terms(f)
    M = _matrix_term(f, tt)
    ctx.need(M is not None, R, 'matrix allocation not found')
    # extra insertions: inside a loop over rows [0, nb_rows) with a drawn column
    ext = []
    for c in _inserts(f, tt, M):
        lp = f.loops.get(c.block.loop) if c.block.loop is not None else None
        # climb to the depth-1 loop
        while lp is not None and lp.parent is not None:
            lp = lp.parent
        if lp is None:
            continue
        lr = loop_range(f, lp, tt)
        if lr is None:
            continue
        if lr.start == ('const', 0) and lr.bound == ('param', 0):
            iv = tt.term(_V(lr.iv))
            if tt.term(c.args[1]) == iv and _affine(tt.term(c.args[2]), iv) is None:
                ext.append((c, lp))
    ctx.need(ext, R, 'no extra-entry insertion found')
    # the counter: a header phi of that loop incremented in every block that inserts
    lp = ext[0][1]
    counters = []
    for i in lp.header.insts:
        if i.op == 'phi' and any(const_of(v) == 0 for b, v in i.incoming if b not in lp.blocks):
            counters.append(i)
    marker_stores = [i for i in f.all_insts() if i.op == 'store' and addr_root(tt.term(i.ops[1])) == ('field', 'extra_entries_added_in_pchk')]
    ctx.need(marker_stores, R, 'marker store not found')
    # which counter decides the marker?
    decided = None
    for s in marker_stores:
        for a in atoms_at(f, tt, s.block):
            if a[0] == 'cmp' and a[2][0] == 'phi' and a[3][0] == 'const':
                for cnt in counters:
                    if a[2][1] == cnt.id:
                        decided = cnt
    if decided is None:
        ctx.fail(R, marker_stores[0], 'marker:counter', 'the marker is not derived from a counter of the extra insertions')
        return
    for c, _ in ext:
        inc = [i for i in c.block.insts if i.op == 'add' and const_of(i.ops[1]) == 1 and _flows_from(i.ops[0], decided)]
        # the incremented value must flow back to the counter phi
        ok = bool(inc) and _reaches_phi(inc[0], decided)
        ctx.instance(R, ok, c, 'marker:counted', 'an extra entry is inserted at %s without incrementing the counter the marker is '
                     'derived from: the flag could claim a null last symbol although a column has N1+1 ones' % c.loc())
    for s in marker_stores:
        atoms = atoms_at(f, tt, s.block)
        v = const_of(s.ops[0])
        ge1 = any(a[0] == 'cmp' and a[2] == ('phi', decided.id) and ((a[1] == 'uge' and a[3] == ('const', 1)) or
                  (a[1] == 'ugt' and a[3] == ('const', 0)) or (a[1] == 'ne' and a[3] == ('const', 0))) for a in atoms)
        lt1 = any(a[0] == 'cmp' and a[2] == ('phi', decided.id) and ((a[1] == 'ult' and a[3] == ('const', 1)) or
                  (a[1] == 'ule' and a[3] == ('const', 0)) or (a[1] == 'eq' and a[3] == ('const', 0))) for a in atoms)
        ok = (v == 1 and ge1) or (v == 0 and lt1)
        ctx.instance(R, ok, s, 'marker:value=%s' % v, 'marker stored as %s under a condition that is not "count %s 1"' %
                     (v, '>=' if v else '<'))
    # the marker must be stored on every path to the successful return
    rets = [(f.bmap[ch[0][0]] if ch else r.block) for v, ch, r in ret_sources(f) if v is not None and tt.term(v) == M]
    ok = bool(rets) and all(any(f.bdom(s.block, o) for s in marker_stores) or
                            _all_paths_store(f, marker_stores, o) for o in rets)
    ctx.instance(R, ok, f, 'marker:always-set', 'the matrix can be returned without the marker having been (re)computed')


def _flows_from(v, phi, seen=None):
    """v is the counter phi, or derived from it through phis / additions"""
    if seen is None:
        seen = set()
    sv = strip_casts(v)
    if sv.k != 'i':
        return False
    if sv.inst is phi:
        return True
    if sv.inst.id in seen or len(seen) > 40:
        return False
    seen.add(sv.inst.id)
    if sv.inst.op == 'phi':
        return any(_flows_from(x, phi, seen) for x in sv.inst.ops)
    if sv.inst.op == 'add':
        return _flows_from(sv.inst.ops[0], phi, seen)
    return False


def _reaches_phi(inst, phi, depth=0, seen=None):
    if seen is None:
        seen = set()
    if depth > 8 or inst.id in seen:
        return False
    seen.add(inst.id)
    for u in inst.users:
        if u is phi:
            return True
        if u.op in ('phi', 'add') and _reaches_phi(u, phi, depth + 1, seen):
            return True
    return False


def _all_paths_store(f, stores, target):
    sb = [s.block for s in stores]
    r = f.reachable(f.entry, stop=sb)
    return target.id not in r or target.id in set(b.id for b in sb)


# ------------------------------------------------------------------ flag truth, null feed
def r_flag_truth(ctx, prog):
    R = 'R-FLAG-TRUTH'
    ctx.rule(R, 'OF_CRTL_LDPC_STAIRCASE_IS_LAST_SYMBOL_NULL answers true iff no extra entries were added and N1 is even (truth table '
             'over the two booleans, enumerated over the path conditions); the answer does not depend on the codec role', floor=1)
    f = prog.need_fn(LDPC_GET, R)
    tt = Terms(f)
    st = 'of_ldpc_staircase_cb'
    extra = L(fld(prog, st, 'extra_entries_added_in_pchk'))
    n1 = L(fld(prog, st, 'N1'))
    typ = ('param', 1)
    removed0 = contradicted_edges(f, tt, {typ: FLAG_TYPE})
    reach0 = f.reachable(f.entry, removed=removed0)
    stores = [i for i in f.all_insts() if i.op == 'store' and tt.term(i.ops[1]) == ('param', 2) and i.block.id in reach0]
    ctx.need(stores, R, 'no store through `value` reachable for the IS_LAST_SYMBOL_NULL request')
    for ex in (0, 1):
        for par in (0, 1):
            # restrict by extra == ex; the parity bit is a term (N1 & 1): assume its value
            par_term = None
            for b in f.blocks:
                for i in b.insts:
                    if i.op == 'and' and const_of(i.ops[1]) == 1 and _is_load_of(tt.term(i.ops[0]), n1):
                        par_term = tt.term(_V(i))
            assume = {typ: FLAG_TYPE, extra: ex}
            if par_term is not None:
                assume[par_term] = par
            removed = contradicted_edges(f, tt, assume)
            reach = f.reachable(f.entry, removed=removed)
            vals = set()
            for s in stores:
                if s.block.id not in reach:
                    continue
                v = _bool_value(f, tt, s.ops[0], assume, removed)
                vals.add(v)
            want = 1 if (ex == 0 and par == 0) else 0
            ctx.instance(R, vals == set([want]), stores[0], 'flag:extra=%d,N1odd=%d' % (ex, par),
                         'with extra entries %s and N1 %s the query stores %s; it must answer %s' %
                         ('added' if ex else 'not added', 'odd' if par else 'even', sorted(map(str, vals)), bool(want)))
    role = []
    for s in stores:
        role += [a for a in atoms_at(f, tt, s.block) if _mentions_field(a, 'codec_type')]
    ctx.instance(R, not role, stores[0], 'flag:role-independent', 'the answer depends on the codec role')


def _is_load_of(t, target):
    return t == target


def _bool_value(f, tt, v, assume, removed):
    """value of a stored boolean under the assumptions: constants, phi selected by the surviving incoming edge, zext of compare"""
    c = const_of(v)
    if c is not None:
        return c
    sv = strip_casts(v)
    if sv.k == 'i' and sv.inst.op == 'phi':
        rem = set(removed)
        reach = f.reachable(f.entry, removed=removed)
        vals = set()
        for bid, x in sv.inst.incoming:
            if bid in reach and (bid, sv.inst.block.id) not in rem:
                vals.add(_bool_value(f, tt, x, assume, removed))
        return vals.pop() if len(vals) == 1 else 'ambiguous'
    if sv.k == 'i' and sv.inst.op == 'icmp':
        a, b = tt.term(sv.inst.ops[0]), tt.term(sv.inst.ops[1])
        from .ir import _eval_pred
        if a in assume and b[0] == 'const':
            return 1 if _eval_pred(sv.inst.pred, assume[a], b[1]) else 0
    if sv.k == 'i' and sv.inst.op == 'select':
        cnd = _bool_value(f, tt, sv.inst.ops[0], assume, removed)
        if cnd in (0, 1):
            return _bool_value(f, tt, sv.inst.ops[1 if cnd else 2], assume, removed)
    return 'unknown'


def r_nullfeed(ctx, prog):
    R = 'R-NULLFEED'
    ctx.rule(R, 'the decoder submits a zero symbol to itself only when the last-symbol-null query answered true, with a zeroed buffer of '
             'encoding_symbol_length bytes and ESI n-1', floor=1)
    f = prog.need_fn(LDPC_SET, R)
    tt = Terms(f, forward=True)
    st = 'of_ldpc_staircase_cb'
    subs = [c for c in f.calls() if c.callee in ('of_ldpc_staircase_decode_with_new_symbol', 'of_linear_binary_code_decode_with_new_symbol')]
    ctx.need(len(subs) == 1, R, 'self-submission call not found in %s' % LDPC_SET)
    c = subs[0]
    args = [tt.term(a) for a in c.args]
    buf = args[1]
    okbuf = buf[0] == 'call' and buf[1] in ('of_calloc', 'calloc')
    if okbuf:
        al = f.insts[buf[2]]
        a0, a1 = tt.term(al.args[0]), tt.term(al.args[1])
        ln = _len_term(prog, tt, f)
        okbuf = (a0 == ('const', 1) and a1 in ln) or (a1 == ('const', 1) and a0 in ln)
    ctx.instance(R, okbuf, c, 'nullfeed:buffer', 'the self-submitted symbol must be a calloc of encoding_symbol_length bytes (got %s)' % show(buf)[:60])
    esi = args[2]
    okesi = esi[0] == 'bin' and esi[1] == 'sub' and esi[3] == ('const', 1) and _is_total(prog, esi[2])
    if not okesi and esi[0] == 'bin' and esi[1] == 'add' and esi[3] == ('const', -1):
        okesi = _is_total(prog, esi[2])
    ctx.instance(R, okesi, c, 'nullfeed:esi', 'the self-submitted symbol must have ESI nb_total_symbols - 1 (got %s)' % show(esi)[:80])
    # guarded by the flag queried through the control call with the IS_LAST_SYMBOL_NULL request
    q = [x for x in f.calls(LDPC_GET) if const_of(x.args[1]) == FLAG_TYPE and f.dominates(x, c)]
    okq = False
    if q:
        out = Terms(f).term(q[0].args[2])         # address of the local bool
        atoms = atoms_at(f, Terms(f), c.block)
        for a in atoms:
            if a[0] == 'cmp' and a[1] == 'ne' and a[3] == ('const', 0):
                x = a[2]
                while x[0] == 'trunc':
                    x = x[2]
                if x[0] in ('load', 'load@') and x[1] == out:
                    okq = True
                if x[0] == 'bin' and x[1] == 'and' and x[2][0] in ('load', 'load@') and x[2][1] == out:
                    okq = True
    ctx.instance(R, okq, c, 'nullfeed:guard', 'the self-submission is not conditional on the IS_LAST_SYMBOL_NULL answer being true')
    role = any(_is_role_mask_test(a, 2) for a in atoms_at(f, Terms(f), c.block))
    ctx.instance(R, role, c, 'nullfeed:decoder-only', 'the self-submission must happen for every instance that can decode, i.e. under '
                 '(codec_type & OF_DECODER) != 0 (an equality test misses OF_ENCODER_AND_DECODER sessions, for which the query still '
                 'answers true)')


def _is_role_mask_test(a, mask):
    # (type & mask) != 0 and (type & mask) == 0 are the two sides of one mask test
    if a[0] != 'cmp' or a[1] not in ('ne', 'eq') or a[3] != ('const', 0):
        return False
    t = a[2]
    return t[0] == 'bin' and t[1] == 'and' and ('const', mask) in (t[2], t[3]) and \
        any(is_field_load(x, 'codec_type', None) for x in (t[2], t[3]))


def r_role_form(ctx, prog):
    """Every test of the session role anywhere in the library is a mask test (codec_type & OF_ENCODER / OF_DECODER) != 0:
    OF_ENCODER_AND_DECODER sessions must take both sides."""
    R = 'R-ROLE-FORM'
    ctx.rule(R, 'every branch on codec_type is a mask test against OF_ENCODER or OF_DECODER', floor=1)
    from .ir import out_edges, cond_atoms
    for f in prog.all_functions:
        tt = Terms(f)
        for b in f.blocks:
            es = out_edges(b)
            if len(es) < 2 or es[0][1] is None or es[0][1][0] != 'br':
                continue
            atoms = cond_atoms(tt, es[0][1][1], True)
            for a in atoms:
                if not _mentions_field(a, 'codec_type'):
                    continue
                ok = _is_role_mask_test(a, 1) or _is_role_mask_test(a, 2)
                ctx.instance(R, ok, b.term(), '%s:role-test' % f.name,
                             '%s tests the codec role with %s instead of a mask test: sessions created as OF_ENCODER_AND_DECODER '
                             'are treated differently from what their role allows' % (f.name, show(a)[:80]))


def _len_term(prog, tt, f):
    pst = 'of_ldpc_parameters'
    return [L(fld(prog, pst, 'encoding_symbol_length', ('param', 1))),
            L(fld(prog, 'of_ldpc_staircase_cb', 'encoding_symbol_length'))]


def _is_total(prog, t):
    pst = 'of_ldpc_parameters'
    k = L(fld(prog, pst, 'nb_source_symbols', ('param', 1)))
    r = L(fld(prog, pst, 'nb_repair_symbols', ('param', 1)))
    return t in (('bin', 'add', k, r), ('bin', 'add', r, k), L(fld(prog, 'of_ldpc_staircase_cb', 'nb_total_symbols')))


# ------------------------------------------------------------------ R-ROWDEG2: RFC 5170 "at least two entries per row"
def r_rowdeg2(ctx, prog):
    """RFC 5170 5.2: after the regular fill, every row with no source entry gets one, and every row that then has exactly one gets
    a second one in a different column.  Decided by a typestate walk over one iteration of the row loop: the abstract row degree
    (0, 1, >=2) is refined by the emptiness tests on the row's first / second entry and incremented by insertions; at the end
    of the iteration (with more than one source column) only ">= 2" may remain."""
    R = 'R-ROWDEG2'
    ctx.rule(R, 'in the "extra entries" step of the matrix constructor every row leaves its iteration with at least two source entries '
             '(typestate walk over the row degree: emptiness tests refine it, insertions into the current row increment it)', floor=1)
    f = prog.need_fn(PCHK, R)
    tt = Terms(f)
    M = _matrix_term(f, tt)
    ctx.need(M is not None, R, 'matrix allocation not found')
    target = None
    for lp in f.loops.values():
        lr = loop_range(f, lp, tt)
        if lr is None or lp.depth != 1:
            continue
        if not (lr.start == ('const', 0) and lr.bound == ('param', 0) and lr.step == 1 and lr.pred in ('ult', 'slt')):
            continue
        calls = list(calls_in_loop(f, lp))
        iv = tt.term(_V(lr.iv))
        ins = [c for c in calls if c.callee == 'of_mod2sparse_insert' and tt.term(c.args[0]) == M and tt.term(c.args[1]) == iv]
        if ins and any(c.callee == 'of_rfc5170_rand' for c in calls):
            target = (lp, lr, iv, ins)
    if target is None:
        ctx.fail(R, f, 'rowdeg2:loop', 'no loop over the rows [0, n-k) that adds random entries to the current row: rows with fewer '
                 'than two source entries are no longer topped up (RFC 5170 5.2)')
        return
    lp, lr, iv, ins = target
    ctx.ok(R, lr.cmp, 'rowdeg2:loop', 'row loop found')
    body = set(lp.blocks)
    hid = lp.header.id

    def is_first(t):
        # M->rows[i].right
        return (t[0] == 'load' and t[1][0] == 'field' and t[1][2] == 'right' and t[1][1][0] == 'elem' and _strip(t[1][1][2]) == _strip(iv)
                and t[1][1][1][0] == 'load' and t[1][1][1][1][0] == 'field' and t[1][1][1][1][2] == 'rows' and t[1][1][1][1][1] == M)

    def _strip(t):
        while isinstance(t, tuple) and t[0] in ('trunc',):
            t = t[2]
        return t
    state_in = {}
    state_out = {}
    problems = []

    def entry_valid(v, use_state, use_block, use_inst=None):
        """is value v (an entry pointer) the first entry of the non-empty current row at the point of use?"""
        v = strip_casts(v)
        if v.k != 'i':
            return False
        i = v.inst
        if i.op == 'phi':
            return all(entry_valid(x, state_out.get((bid, i.block.id)), bid) for bid, x in i.incoming)
        if i.op == 'call' and i.callee == 'of_mod2sparse_insert' and tt.term(i.args[0]) == M and tt.term(i.args[1]) == iv:
            # the entry just inserted is the row's first entry iff the row was empty before
            return pre_insert.get(i.id) == frozenset([0])
        if i.op == 'load' and is_first(tt.term(v)):
            # row->right: the first entry when the row is known non-empty at the use and no insertion can run in between
            if use_state is None or 0 in use_state:
                return False
            for c in ins:
                if c.block.id == i.block.id:
                    if i.block.insts.index(c) > i.block.insts.index(i):
                        if use_block == i.block.id and use_inst is not None and i.block.insts.index(use_inst) < i.block.insts.index(c):
                            continue
                        return False
                elif f.dominates(i, c) and use_block in f.reachable(c.block, stop=[lp.header]):
                    return False
            return True
        return False
    pre_insert = {}
    at_load = {}
    order = [b for b in f.blocks if b.id in body]
    changed = True
    rounds = 0
    FULL = frozenset([0, 1, 2])
    state_in[hid] = FULL
    while changed and rounds < 50:
        changed = False
        rounds += 1
        del problems[:]
        for b in order:
            if b.id == hid:
                st = FULL
            else:
                st = frozenset()
                for p in b.preds:
                    if (p.id, b.id) in state_out:
                        st = st | state_out[(p.id, b.id)]
            if not st and b.id != hid:
                continue
            state_in[b.id] = st
            cur = st
            for i in b.insts:
                if i.op == 'load' and is_first(tt.term(_V(i))):
                    at_load[i.id] = cur
                if i.op == 'call' and i.callee == 'of_mod2sparse_insert' and tt.term(i.args[0]) == M:
                    if tt.term(i.args[1]) != iv:
                        continue
                    pre_insert[i.id] = cur
                    col = tt.term(i.args[2])
                    distinct = any(a[0] == 'cmp' and a[1] == 'ne' and (_strip(a[2]) == _strip(col) or _strip(a[3]) == _strip(col))
                                   for a in atoms_at(f, tt, b))
                    nxt = set()
                    for d in cur:
                        if d == 0:
                            nxt.add(1)
                        elif d == 1:
                            nxt.add(2)
                            if not distinct:
                                nxt.add(1)      # may hit the existing entry
                        else:
                            nxt.add(2)
                    cur = frozenset(nxt)
            for s2, lab in out_edges(b):
                out = cur
                if lab is not None and lab[0] == 'br':
                    ct = tt.term(lab[1])
                    pol = lab[2]
                    if ct[0] == 'cmp' and ct[3] == ('const', 0) and ct[1] in ('slt', 'sge') and ct[2][0] == 'load' and \
                            ct[2][1][0] == 'field' and ct[2][1][2] == 'row':
                        atend = pol if ct[1] == 'slt' else (not pol)
                        icmp = strip_casts(lab[1]).inst
                        ld = strip_casts(icmp.ops[0]).inst          # load of ->row
                        ent = strip_casts(ld.ops[0])                 # gep X->row
                        entv = strip_casts(ent.inst.ops[0]) if ent.k == 'i' and ent.inst.op == 'getelementptr' else None
                        X = ct[2][1][1]
                        if is_first(X):
                            out = cur & (frozenset([0]) if atend else frozenset([1, 2]))
                        elif X[0] == 'load' and X[1][0] == 'field' and X[1][2] == 'right' and entv is not None and entv.k == 'i' \
                                and entv.inst.op == 'load':
                            # X = E->right
                            g = strip_casts(entv.inst.ops[0])
                            E = strip_casts(g.inst.ops[0]) if g.k == 'i' and g.inst.op == 'getelementptr' else None
                            if E is not None and entry_valid(E, cur, b.id, icmp):
                                out = cur & (frozenset([0, 1]) if atend else frozenset([2]))
                                out = out - frozenset([0]) if 0 not in cur else out
                            else:
                                problems.append((icmp, 'the test of the second entry starts from a pointer that need not be the '
                                                 'first entry of the row'))
                    elif any(a5[0] == 'cmp' and a5[3] == ('const', 1) and 'load' not in repr(a5[2]) and a5[1] in ('ule', 'ult', 'eq')
                             for a5 in (norm_atom(x5) for x5 in cond_atoms(tt, lab[1], pol))):
                        out = frozenset()       # assumption: more than one source column (also when the test is kept in a bool)
                if state_out.get((b.id, s2.id)) != out:
                    state_out[(b.id, s2.id)] = out
                    changed = True
    if problems:
        ctx.broken(R, '%s: %s' % (problems[0][0].loc(), problems[0][1]))
    final = frozenset()
    for (p, s), st in state_out.items():
        if s == hid and p in body:
            final = final | st
    left = sorted(final - frozenset([2]))
    where = ins[0]
    ctx.instance(R, not left, where, 'rowdeg2:postcondition',
                 'a row can leave the "extra entries" step with %s source entr%s (more than one source column): RFC 5170 requires at '
                 'least two per row, so the matrix -- and every repair symbol -- differs from the specified code' %
                 (' or '.join(str(x) for x in left), 'y' if left == [1] else 'ies'))
