"""R-SRCSTORE / R-SRCPTR (who writes the source-symbol table, and what) and R-CB (callback call-site contract)."""
from .ir import Terms, strip_casts, const_of, atoms_at, has_atom, show, ret_sources, out_edges, cond_atoms, blocks_reaching, \
    guards_at
from .effects import addr_root, ALLOCATORS
from .rules_decode import RS_FAMILY, LB_FAMILY, IT, ML, fld, L, is_field_load, ERROR, FATAL, OK, FAILURE

SIMPLIFY = 'of_linear_binary_code_simplify_linear_system_with_a_symbol'
TABLES = ('encoding_symbols_tab', 'available_symbols_tab')


def _idx_of(addr):
    return addr[2] if addr[0] == 'elem' else None


def _guarded_source(atoms, idx, base):
    """idx < base->nb_source_symbols known?"""
    for a in atoms:
        if a[0] == 'cmp' and a[1] == 'ult' and a[2] == idx and is_field_load(a[3], 'nb_source_symbols', None):
            return True
        if a[0] == 'cmp' and a[1] == 'ugt' and a[3] == idx and is_field_load(a[2], 'nb_source_symbols', None):
            return True
    return False


def _guarded_repair(atoms, idx):
    for a in atoms:
        if a[0] == 'cmp' and a[1] == 'uge' and a[2] == idx and is_field_load(a[3], 'nb_source_symbols', None):
            return True
        if a[0] == 'cmp' and a[1] == 'ule' and a[3] == idx and is_field_load(a[2], 'nb_source_symbols', None):
            return True
    return False


def classify_store(prog, f, tt, i):
    """Returns (class, detail).  Classes: received, received-repair-copy, decoded-source, decoded-repair, reset, unknown."""
    addr = tt.term(i.ops[1])
    v = tt.term(i.ops[0])
    idx = _idx_of(addr)
    atoms = atoms_at(f, tt, i.block)
    slot_null = has_atom(atoms, 'eq', ('load', addr), ('const', 0))
    if v == ('const', 0):
        return 'reset', ''
    # (i) received: the API's symbol parameter itself, or tab[i] of the set-available parameter
    if v == ('param', 1) and idx == ('param', 2):
        if f.name == IT:
            if not _guarded_source(atoms, idx, None):
                return 'unknown', 'the received pointer is stored for an ESI not known to be a source ESI'
        return 'received', ''
    if v[0] in ('load',) and v[1][0] == 'elem' and v[1][1] == ('param', 1) and v[1][2] == idx:
        return 'received', 'tab[i] of set-available'
    # (ii) received repair, linear-binary: fresh allocation filled by memcpy from the parameter (registered at once, or held in a
    # local that is NULL on the source side and registered later under "local != NULL")
    v2, atoms2 = v, atoms
    if v[0] == 'phi' and idx == ('param', 2) and f.name == IT:
        from .ir import phi_provenance_atoms
        phi0 = f.insts[v[1]]
        nz0 = [tt.term(x) for x in phi0.ops if tt.term(x) != ('const', 0)]
        prov = phi_provenance_atoms(f, tt, phi0, atoms)
        if len(nz0) == 1 and prov and nz0[0][0] == 'call' and nz0[0][1] in ALLOCATORS:
            v2, atoms2 = nz0[0], list(atoms) + prov
    if v2[0] == 'call' and v2[1] in ALLOCATORS and idx == ('param', 2) and f.name == IT:
        cp = [c for c in f.calls('memcpy') if tt.term(c.args[0]) in (('load', addr), v2) and tt.term(c.args[1]) == ('param', 1)
              and (f.dominates(i, c) or (v2 is not v and f.dominates(f.insts[v2[2]], c)))]
        if cp and _guarded_repair(atoms2, idx):
            return 'received-repair-copy', ''
        return 'unknown', 'allocation stored for the submitted ESI without the copy of the received repair symbol'
    # (iii)/(iv) decoded: callback result, or a library buffer on the "no callback / callback returned NULL" side
    if v[0] == 'phi':
        # "dst = NULL; if (...) dst = callback(); if (dst != NULL) table = dst": the phi is the callback result here
        phi = f.insts[v[1]]
        ins = [tt.term(x) for x in phi.ops]
        nz = [x for x in ins if x != ('const', 0)]
        if len(nz) == 1 and len(ins) > 1 and has_atom(atoms, 'ne', v, ('const', 0)):
            v = nz[0]
    is_cb = v[0] == 'icall'
    is_alloc = v[0] == 'call' and v[1] in ALLOCATORS
    which = None
    if is_cb:
        which = _cb_kind(f, tt, v)
    else:
        for a in atoms:
            if a[0] == 'cmp' and a[1] == 'eq' and a[3] == ('const', 0):
                # allocation / library buffer on the "no callback registered" edge
                if is_field_load(a[2], 'decoded_source_symbol_callback', None):
                    which = 'source'
                if is_field_load(a[2], 'decoded_repair_symbol_callback', None):
                    which = 'repair'
                # ... or on the "callback returned NULL (or was not called)" edge
                x = a[2]
                cands = [x]
                if x[0] == 'phi':
                    cands = [tt.term(o) for o in f.insts[x[1]].ops]
                for cnd in cands:
                    if cnd[0] == 'icall' and _cb_kind(f, tt, cnd):
                        which = which or _cb_kind(f, tt, cnd)
        if which is None and slot_null:
            # fallback shape: "if (cb) slot = cb(); if (slot == NULL) slot = alloc();" -- a callback result was stored to this very
            # slot earlier on the way here
            reach = blocks_reaching(f, [i.block])
            for s2 in tt.stores_by_addr().get(addr, []):
                sv = tt.term(s2.ops[0])
                if s2 is not i and sv[0] == 'icall' and s2.block.id in reach and _cb_kind(f, tt, sv):
                    which = _cb_kind(f, tt, sv)
    if is_cb or is_alloc or which is not None:
        if which is None:
            return 'unknown', 'library allocation stored into the table without consulting the decoded-symbol callback'
        if not slot_null:
            return 'unknown', 'decoded symbol stored into a slot not known to be empty'
        if which == 'source' and not (_guarded_source(atoms, idx, None)):
            return 'unknown', 'source callback used for an index not known to be < k'
        return 'decoded-' + which, ''
    return 'unknown', 'value %s is neither a received pointer nor a callback/allocator result chosen by the callback-or-allocate rule' % show(v)[:80]


def _cb_kind(f, tt, icall_term):
    call = f.insts[icall_term[1]]
    ct = tt.term(call.calleev)
    if is_field_load(ct, 'decoded_source_symbol_callback', None):
        return 'source'
    if is_field_load(ct, 'decoded_repair_symbol_callback', None):
        return 'repair'
    return None


def r_srcstore(ctx, prog, codecs):
    R = 'R-SRCSTORE'
    ctx.rule(R, 'every store into a symbol table in the program is one of: the received pointer itself (source ESIs), a private copy of '
             'a received repair symbol, a decoded symbol placed in the buffer chosen by the callback-or-allocate rule into an empty '
             'slot, or NULL in release', floor=1)
    scope_structs = set()
    n = 0
    for f in prog.all_functions:
        tt = Terms(f)
        for i in f.all_insts():
            if i.op != 'store':
                continue
            root = addr_root(tt.term(i.ops[1]))
            if root[0] != 'elems' or root[1] not in TABLES:
                continue
            codec = _codec_of_fn(f)
            if codec is not None and not (set(codec) & set(codecs)):
                continue
            n += 1
            cls, why = classify_store(prog, f, tt, i)
            if cls == 'reset':
                ok = f.name.endswith('release_codec_instance')
                ctx.instance(R, ok, i, '%s:reset' % f.name, '%s resets a table slot to NULL' % f.name)
                continue
            ctx.instance(R, cls != 'unknown', i, '%s:%s' % (f.name, 'line-independent:' + _store_key(tt, i)),
                         '%s stores into %s: %s' % (f.name, show(tt.term(i.ops[1])), why))
    ctx.need(n >= 8, R, 'only %d symbol-table stores found' % n)


def _store_key(tt, i):
    import re
    return re.sub(r'(#|phi:|icall:)\d+', '', _store_key0(tt, i))


def _store_key0(tt, i):
    v = tt.term(i.ops[0])
    if v[0] == 'call':
        return 'value=' + v[1] + '()'
    if v[0] == 'icall':
        return 'value=callback()'
    if v[0] in ('load', 'load@'):
        a = v[1]
        return 'value=' + show(('load', a)).replace('phi:', 'i').split('[')[0] + '[..]'
    return 'value=' + show(v)


def _codec_of_fn(f):
    n = f.name
    if n.startswith('of_rs_2_m') or n.startswith('of_rs_2m'):
        return [2]
    if n.startswith('of_rs_'):
        return [1]
    if n.startswith('of_ldpc_staircase'):
        return [3]
    if n.startswith('of_2d_parity'):
        return [5]
    if n.startswith('of_linear_binary_code'):
        return [3, 5]
    return None


def r_srcptr(ctx, prog, codecs):
    R = 'R-SRCPTR'
    ctx.rule(R, 'get_source_symbols_tab copies exactly k pointers from the session table to the caller\'s array', floor=1)
    for fam in RS_FAMILY + LB_FAMILY:
        if fam['codec'] not in codecs:
            continue
        f = prog.need_fn(fam['gettab'], R)
        tt = Terms(f)
        table = 'available_symbols_tab' if fam in RS_FAMILY else 'encoding_symbols_tab'
        cps = [c for c in f.calls('memcpy')]
        ok = False
        why = 'no memcpy'
        for c in cps:
            d, s, n = [tt.term(a) for a in c.args[:3]]
            k = L(fld(prog, fam['struct'], 'nb_source_symbols'))
            nn = n
            okn = nn[0] == 'bin' and nn[1] == 'mul' and ('const', 8) in (nn[2], nn[3]) and k in (nn[2], nn[3])
            ok = d == ('param', 1) and s == L(fld(prog, fam['struct'], table)) and okn
            why = 'memcpy(%s, %s, %s)' % (show(d), show(s), show(n))
        ctx.instance(R, ok, cps[0] if cps else f, fam['gettab'] + ':copy',
                     '%s must copy nb_source_symbols * sizeof(void*) bytes from %s to the caller\'s table; found %s' %
                     (fam['gettab'], table, why))


def r_cb(ctx, prog, codecs):
    R = 'R-CB'
    ctx.rule(R, 'every call of the decoded-source-symbol callback passes (context, symbol length, esi < k), is guarded by callback != '
             'NULL, its non-NULL result receives the decoded bytes and becomes the table entry for that ESI, and a NULL result falls '
             'back to a library buffer (never an error)', floor=1)
    n = 0
    for f in prog.all_functions:
        codec = _codec_of_fn(f)
        if codec is not None and not (set(codec) & set(codecs)):
            continue
        tt = Terms(f)
        for c in f.all_insts():
            if c.op != 'call' or c.callee is not None:
                continue
            ct = tt.term(c.calleev)
            if not is_field_load(ct, 'decoded_source_symbol_callback', None):
                continue
            n += 1
            base = ct[1][1]
            key = f.name
            args = [tt.term(a) for a in c.args]
            atoms = atoms_at(f, tt, c.block)
            ok_args = len(args) == 3 and is_field_load(args[0], 'context_4_callback', None) and args[0][1][1] == base and \
                is_field_load(args[1], 'encoding_symbol_length', None) and args[1][1][1] == base
            ctx.instance(R, ok_args, c, key + ':args',
                         '%s calls the callback with (%s): must be (context_4_callback, encoding_symbol_length, esi)' %
                         (f.name, ', '.join(show(a) for a in args)))
            ok_guard = has_atom(atoms, 'ne', ct, ('const', 0))
            ctx.instance(R, ok_guard, c, key + ':guard', '%s calls the callback without a dominating callback != NULL test' % f.name)
            esi = args[2] if len(args) == 3 else None
            ok_esi = esi is not None and _guarded_source(atoms, esi, base)
            if not ok_esi and esi is not None:
                # loop induction variable bounded by k (k hoisted into an SSA value)
                ok_esi = any(a[0] == 'cmp' and a[1] in ('ult', 'slt') and a[2] == esi and
                             is_field_load(a[3], 'nb_source_symbols', None) for a in atoms)
            ctx.instance(R, ok_esi, c, key + ':esi',
                         '%s: ESI passed to the source callback (%s) is not known to be < nb_source_symbols at the call' %
                         (f.name, show(esi) if esi else '?'))
            # result use: stored in the table at that esi, or used as destination of memcpy and then submitted for that esi
            res = ('icall', c.id)
            stored = [s for s in f.all_insts() if s.op == 'store' and _mentions_phi_of(f, tt, s.ops[0], c) and
                      addr_root(tt.term(s.ops[1])) in (('elems', 'encoding_symbols_tab'), ('elems', 'available_symbols_tab'))
                      and _idx_of(tt.term(s.ops[1])) == esi]
            dst_of_copy = [m for m in f.calls('memcpy') if _mentions_phi_of(f, tt, m.args[0], c) or
                           (stored and tt.term(m.args[0]) == ('load', tt.term(stored[0].ops[1])))]
            resubmit = [r for r in f.calls(f.name) if len(r.args) == 3 and _mentions_phi_of(f, tt, r.args[1], c) and tt.term(r.args[2]) == esi]
            ok_use = bool(dst_of_copy) and (bool(stored) or bool(resubmit))
            ctx.instance(R, ok_use, c, key + ':result',
                         '%s: the buffer returned by the callback must receive the decoded bytes and be registered as the table entry '
                         'of that ESI' % f.name)
            # a NULL result must never itself be registered / re-submitted as the symbol's buffer: wherever the result flows into a
            # phi that reaches the table or the recursive submission, that edge must carry "result != NULL"
            bad_null = None
            for ph in f.all_insts():
                if ph.op != 'phi':
                    continue
                for bid, x in ph.incoming:
                    if tt.term(x) == res:
                        used = any(_mentions_phi_of(f, tt, a2, c) for r2 in f.calls(f.name) for a2 in r2.args[1:2]) or \
                            any(_mentions_phi_of(f, tt, s3.ops[0], c) for s3 in stored)
                        if used and _phi_reaches_use(f, tt, ph, c) and not _uses_guarded_nonnull(f, tt, ph):
                            edge_atoms = atoms_at(f, tt, f.bmap[bid])
                            if not has_atom(edge_atoms, 'ne', res, ('const', 0)):
                                # the incoming block itself may end with the test: check the edge label
                                ok_edge = False
                                for s4, lab in out_edges(f.bmap[bid]):
                                    if s4 is ph.block and lab and lab[0] == 'br':
                                        for a3 in cond_atoms(tt, lab[1], lab[2]):
                                            if a3 == ('cmp', 'ne', res, ('const', 0)):
                                                ok_edge = True
                                if not ok_edge:
                                    bad_null = ph
            ctx.instance(R, bad_null is None, bad_null or c, key + ':null-not-registered',
                         '%s: the callback result can reach the symbol registration without having been tested non-NULL: a callback '
                         'returning NULL ("let the library allocate") makes the library register a NULL buffer' % f.name)
            # NULL fallback: a NULL callback result must not flow to an edge from which only error returns are reachable
            bad_edge = _null_flows_to_error(f, tt, c, stored)
            ctx.instance(R, bad_edge is None, bad_edge or c, key + ':null-fallback',
                         '%s treats a NULL return of the decoded-source-symbol callback as an error (every path from the NULL edge '
                         'returns an error status); the API says NULL means "let the library allocate the buffer"' % f.name)
            # exactly one call per decoded symbol on a path: the call is not inside an inner loop of its own and no second
            # source-callback call is reachable from it without leaving through the table store / recursion
            others = [o for o in f.all_insts() if o is not c and o.op == 'call' and o.callee is None and
                      is_field_load(tt.term(o.calleev), 'decoded_source_symbol_callback', None)]
            ctx.instance(R, not others, c, key + ':once', '%s has more than one source-callback call site' % f.name)
    ctx.need(n >= (3 if len(codecs) >= 3 else 1), R, 'only %d call sites of decoded_source_symbol_callback found' % n)


def _mentions_phi_of(f, tt, v, call, depth=0):
    """argument value is (a phi, possibly nested, of) the callback result"""
    t = tt.term(v) if not isinstance(v, tuple) else v
    if t == ('icall', call.id):
        return True
    if t[0] == 'phi' and depth < 4:
        phi = f.insts[t[1]]
        return any(_mentions_phi_of(f, tt, x, call, depth + 1) for x in phi.ops)
    return False


def _uses_guarded_nonnull(f, tt, ph):
    """every registration use of this phi (table store, recursive submission) sits under "phi != NULL" """
    pt = ('phi', ph.id)
    ok = False
    for u in ph.users:
        if u.op == 'store' and strip_casts(u.ops[0]).k == 'i' and strip_casts(u.ops[0]).inst is ph:
            if not has_atom(atoms_at(f, tt, u.block), 'ne', pt, ('const', 0)):
                return False
            ok = True
        elif u.op == 'call' and u.callee == f.name:
            if not has_atom(atoms_at(f, tt, u.block), 'ne', pt, ('const', 0)):
                return False
            ok = True
        elif u.op == 'phi':
            # "if (buf != NULL) dst = buf; else dst = fallback;": the phi may flow on only along edges that assert buf != NULL
            for bid, x in u.incoming:
                if strip_casts(x).k == 'i' and strip_casts(x).inst is ph:
                    pb = f.bmap[bid]
                    at = list(atoms_at(f, tt, pb))
                    for s4, lab in out_edges(pb):
                        if s4 is u.block and lab and lab[0] == 'br':
                            at.extend(cond_atoms(tt, lab[1], lab[2]))
                    if not has_atom(at, 'ne', pt, ('const', 0)):
                        return False
                    ok = True
    return ok


def _phi_reaches_use(f, tt, ph, call):
    """does this phi (transitively through phis) feed a table store or the recursive submission?"""
    seen = set()
    work = [ph]
    while work:
        x = work.pop()
        if x.id in seen:
            continue
        seen.add(x.id)
        for u in x.users:
            if u.op == 'phi':
                work.append(u)
            elif u.op == 'store' and strip_casts(u.ops[0]).k == 'i' and strip_casts(u.ops[0]).inst is x:
                return True
            elif u.op == 'call' and u.callee == f.name:
                return True
    return False


def _null_flows_to_error(f, tt, call, stored):
    """Is there a path on which the callback's NULL result reaches a test edge "value == NULL" that only leads to error
    returns?  The value is tracked as the SSA result and through the table slot it was stored to; other stores to that slot
    (e.g. the fallback allocation) kill it, and edges asserting "value != NULL" are not followed."""
    res = ('icall', call.id)
    slot_addrs = set(tt.term(s.ops[1]) for s in stored if tt.term(s.ops[0]) == res)
    def is_val(x):
        if x == res:
            return True
        if x[0] in ('load', 'load@') and x[1] in slot_addrs:
            return True
        if x[0] == 'phi' and _mentions_phi_of(f, tt, x, call):
            return True
        return False
    # forward walk from the call block
    start = call.block
    seen = set()
    work = [(start, call.pos)]
    while work:
        b, pos = work.pop()
        killed = False
        for i in b.insts[pos:]:
            if i.op == 'store' and tt.term(i.ops[1]) in slot_addrs and tt.term(i.ops[0]) != res and \
                    not _mentions_phi_of(f, tt, i.ops[0], call):
                killed = True
                break
        if killed:
            continue
        for s, lab in out_edges(b):
            follow = True
            if lab is not None and lab[0] == 'br':
                for a in cond_atoms(tt, lab[1], lab[2]):
                    if a[0] == 'cmp' and a[3] == ('const', 0) and is_val(a[2]):
                        if a[1] == 'ne':
                            follow = False          # value known non-NULL: not the NULL case
                        elif a[1] == 'eq' and _only_error_returns(f, s):
                            return b.term()
            if follow and s.id not in seen:
                seen.add(s.id)
                work.append((s, 0))
    return None


def _only_error_returns(f, start):
    """every return reachable from block `start` returns a constant error status"""
    reach = f.reachable(start)
    got = False
    for v, chain, r in ret_sources(f):
        src = f.bmap[chain[0][0]] if chain else r.block
        if src.id in reach or (r.block.id in reach and not chain):
            got = True
            c = const_of(v) if v is not None else None
            if c not in (ERROR, FATAL):
                return False
    return got
