"""R-SIBLINGS: near-clone implementations of one routine agree on their semantic events.

The repository keeps three copies of the GF linear algebra (legacy GF(2^8) codec, GF(2^m) codec for m=4 and m=8), two copies of
the Reed-Solomon API layer and two copies of the linear-binary API layer (LDPC-Staircase, 2D parity).  For every group frozen
below (each confirmed identical on the pinned tree) the normalised multiset of semantic events -- stores (address shape, value
shape), calls (callee class, argument shapes; trace output ignored), branch conditions (polarity-free) and returned values --
must be the same for all members; names that differ by construction (table names, codec prefixes, allocator wrappers, an extra
leading control-block parameter) are mapped to classes.  With three members the odd one out is named.
"""
from collections import Counter

from .ir import Terms, NEG, SWAP

GMAP = {'of_gf_mul_table': 'MUL', 'of_gf_2_8_mul_table': 'MUL', 'of_gf_2_4_mul_table': 'MUL',
        'of_rs_inverse': 'INV', 'of_gf_2_8_inv': 'INV', 'of_gf_2_4_inv': 'INV',
        'of_rs_gf_exp': 'EXP', 'of_gf_2_8_exp': 'EXP', 'of_gf_2_4_exp': 'EXP'}
CMAP = {'of_my_malloc': 'ALLOC', 'of_malloc': 'ALLOC', 'of_calloc': 'ALLOC', 'malloc': 'ALLOC', 'free': 'FREE', 'of_free': 'FREE',
        'of_addmul1': 'ADDMUL', 'of_galois_field_2_8_addmul1': 'ADDMUL', 'of_galois_field_2_4_addmul1': 'ADDMUL',
        'bzero': 'ZERO', 'memset': 'ZERO', 'bcopy': 'COPY', 'memcpy': 'COPY', 'bcmp': 'CMP', 'memcmp': 'CMP'}
PRINTS = ('fprintf', 'printf', 'fflush', 'puts', 'putchar')

# (members as (function, unit or None, number of extra leading parameters), properties' scope tag)
GROUPS = [
    ('invert_mat', [('of_invert_mat', 'of_reed-solomon_gf_2_8.c', 0), ('of_galois_field_2_4_invert_mat', None, 1),
                    ('of_galois_field_2_8_invert_mat', None, 1)], 'rs-algebra'),
    ('invert_vdm', [('of_invert_vdm', None, 0), ('of_galois_field_2_4_invert_vdm', None, 1),
                    ('of_galois_field_2_8_invert_vdm', None, 1)], 'rs-algebra'),
    ('matmul', [('of_matmul', 'of_reed-solomon_gf_2_8.c', 0), ('of_galois_field_2_4_matmul', None, 0),
                ('of_galois_field_2_8_matmul', None, 0)], 'rs-algebra'),
    ('addmul1', [('of_addmul1', 'of_reed-solomon_gf_2_8.c', 0), ('of_galois_field_2_4_addmul1', None, 0),
                 ('of_galois_field_2_8_addmul1', None, 0)], 'rs-algebra'),
    ('shuffle', [('of_shuffle', 'of_reed-solomon_gf_2_8.c', 0), ('of_rs_2m_shuffle', 'of_galois_field_code.c', 0)], 'rs-algebra'),
    ('rs:decode_with_new_symbol', [('of_rs_decode_with_new_symbol', None, 0), ('of_rs_2_m_decode_with_new_symbol', None, 0)], 'rs-api'),
    ('rs:set_available_symbols', [('of_rs_set_available_symbols', None, 0), ('of_rs_2_m_set_available_symbols', None, 0)], 'rs-api'),
    ('rs:is_decoding_complete', [('of_rs_is_decoding_complete', None, 0), ('of_rs_2_m_is_decoding_complete', None, 0)], 'rs-api'),
    ('rs:set_callback_functions', [('of_rs_set_callback_functions', None, 0), ('of_rs_2_m_set_callback_functions', None, 0)], 'rs-api'),
    ('rs:get_source_symbols_tab', [('of_rs_get_source_symbols_tab', None, 0), ('of_rs_2_m_get_source_symbols_tab', None, 0)], 'rs-api'),
    ('lb:build_repair_symbol', [('of_ldpc_staircase_build_repair_symbol', None, 0), ('of_2d_parity_build_repair_symbol', None, 0)], 'lb-api'),
    ('lb:is_decoding_complete', [('of_ldpc_staircase_is_decoding_complete', None, 0), ('of_2d_parity_is_decoding_complete', None, 0)], 'lb-api'),
    ('lb:get_source_symbols_tab', [('of_ldpc_staircase_get_source_symbols_tab', None, 0), ('of_2d_parity_get_source_symbols_tab', None, 0)], 'lb-api'),
    ('lb:set_available_symbols', [('of_ldpc_staircase_set_available_symbols', None, 0), ('of_2d_parity_set_available_symbols', None, 0)], 'lb-api'),
    ('lb:set_callback_functions', [('of_ldpc_staircase_set_callback_functions', None, 0), ('of_2d_parity_set_callback_functions', None, 0)], 'lb-api'),
    ('lb:decode_with_new_symbol', [('of_ldpc_staircase_decode_with_new_symbol', None, 0), ('of_2d_parity_decode_with_new_symbol', None, 0)], 'lb-api'),
    ('lb:finish_decoding', [('of_ldpc_staircase_finish_decoding', None, 0), ('of_2d_parity_finish_decoding', None, 0)], 'lb-api'),
]
# reasoned exceptions: events a member may have in addition (token prefix match on repr)
EXTRA_OK = {}


def cname(c):
    if c is None:
        return None
    c = CMAP.get(c, c)
    return c.replace('of_rs_2_m_', 'of_rs_').replace('of_2d_parity_', 'of_ldpc_staircase_') \
        .replace('of_galois_field_2_4_', 'GF_').replace('of_galois_field_2_8_', 'GF_')


def signature(f, pshift=0, prog=None, subst=None, depth=0, forward=True):
    """Counter of normalised semantic events of f.  Static helpers of the same unit are expanded in place (their parameters
    replaced by the argument terms), so that extracting a few lines into a helper -- or inlining one -- is not a difference.
    Phi nodes are named by their structure (normalised incoming values), not by position."""
    tt = Terms(f, forward=forward)

    def norm(t, d=0):
        if not isinstance(t, tuple):
            return t
        k = t[0]
        if k == 'param':
            if subst is not None:
                return subst[t[1]] if t[1] < len(subst) else ('param?', t[1])
            return ('param', t[1] - pshift)
        if k == 'field':
            return ('field', norm(t[1], d), t[2])
        if k == 'trunc':
            return norm(t[2], d)
        if k in ('global', 'goff'):
            g = t[1]
            if g.startswith('.str') or g.startswith('__FUNCTION__'):
                return ('str',)
            return ('global', GMAP.get(g, g))
        if k == 'phi':
            # a phi is named by the leaves of its phi web (the non-phi values that can flow into it, phis inside them
            # abstracted): joins added or removed by restructuring the control flow do not change the name
            if d > 0:
                return ('phi*',)
            seen = set()
            work = [t[1]]
            leaves = set()
            while work:
                pid = work.pop()
                if pid in seen:
                    continue
                seen.add(pid)
                for x in f.insts[pid].ops:
                    tx = tt.term(x)
                    if tx[0] == 'phi':
                        work.append(tx[1])
                    else:
                        leaves.add(repr(norm(tx, d + 1)))
            return ('phi', tuple(sorted(leaves)))
        if k == 'call':
            return ('call', cname(t[1]))
        if k == 'bin' and t[1] in ('add', 'sub'):
            # integer sums are compared as linear forms: (k-1) - (i-1) is k - i
            def lin(x, sg, acc):
                if isinstance(x, tuple) and x[0] == 'bin' and x[1] in ('add', 'sub'):
                    lin(x[2], sg, acc)
                    lin(x[3], sg if x[1] == 'add' else -sg, acc)
                elif isinstance(x, tuple) and x[0] == 'const':
                    acc[None] = acc.get(None, 0) + sg * x[1]
                elif isinstance(x, tuple) and x[0] == 'trunc':
                    lin(x[2], sg, acc)
                else:
                    key = norm(x, d)
                    acc[key] = acc.get(key, 0) + sg
            acc = {}
            lin(t, 1, acc)
            c0 = acc.pop(None, 0)
            items = sorted(((repr(k2), v) for k2, v in acc.items() if v), key=lambda kv: kv[0])
            if c0 == 0 and len(items) == 1 and items[0][1] == 1:
                return [k2 for k2, v in acc.items() if v][0]
            return ('lin', c0, tuple(items))
        if k == 'cmp' and t[1] in ('eq', 'ne') and t[3] == ('const', 0) and isinstance(t[2], tuple) and \
                (t[2][0] == 'cmp' or (t[2][0] == 'bin' and t[2][1] == 'xor' and isinstance(t[2][2], tuple) and t[2][2][0] == 'cmp')):
            # a test kept in a bool local and tested later (`ok = a < b; if (!ok)`): polarity-free, it is the test itself
            inner = t[2] if t[2][0] == 'cmp' else t[2][2]
            return norm(inner, d)
        if k == 'cmp':
            a, b = norm(t[2], d), norm(t[3], d)
            p = t[1]
            # operand order and polarity are spelling: (a > b), (b < a), !(a <= b) are one test
            if repr(a) > repr(b):
                a, b = b, a
                p = SWAP.get(p, p)
            return ('cmp', min(p, NEG.get(p, p)), a, b)
        if k in ('icall', 'alloca', 'op', 'load@'):
            return (k,) + tuple(norm(x, d) for x in t[1:] if isinstance(x, tuple))
        return tuple(norm(x, d) if isinstance(x, tuple) else x for x in t)
    toks = Counter()
    where = {}
    for b in f.blocks:
        for i in b.insts:
            tok = None
            if i.op == 'store':
                tok = ('store', norm(tt.term(i.ops[1])), norm(tt.term(i.ops[0])))
            elif i.op == 'call':
                c = cname(i.callee)
                if c in PRINTS:
                    continue
                g = prog.callee_fn(i) if prog is not None and i.callee else None
                if g is not None and g.internal and g.unit is f.unit and depth < 2 and i.callee not in SIBLING_NAMES and \
                        i.callee not in CMAP:
                    # a static helper of this unit: its events happen here
                    sub, w2 = signature(g, 0, prog, [norm(tt.term(a)) for a in i.args], depth + 1, forward)
                    for t2, n2 in sub.items():
                        if t2[0] == 'ret':
                            continue
                        toks[t2] += n2
                        where.setdefault(t2, i)
                    continue
                args = tuple(norm(tt.term(a)) for a in i.args)
                if c == 'ALLOC':
                    args = args[:1]
                tok = ('call', c, args)
            elif i.op == 'br' and len(i.ops) == 3:
                tok = ('br', norm(tt.term(i.ops[0])))
                if "'of_verbosity'" in repr(tok):
                    continue        # trace-level test (debug configuration); trace output is not a semantic event
                if _flag_only(tok[1]):
                    continue        # a test of a pure control flag (sentinel index, status of an expanded helper): how the
                    #                 outcome of an earlier test is carried to this point is encoding, not behaviour
            elif i.op == 'ret':
                tok = ('ret', norm(tt.term(i.ops[0])) if i.ops else None)
            if tok is not None:
                toks[tok] += 1
                where.setdefault(tok, i)
    return toks, where


SIBLING_NAMES = set(m[0] for g in GROUPS for m in g[1])


def _flag_only(t):
    """the term is built from constants only (including phis all of whose leaves are constants)"""
    if not isinstance(t, tuple):
        return True
    if t[0] == 'const':
        return True
    if t[0] == 'cmp':
        return _flag_only(t[2]) and _flag_only(t[3])
    if t[0] == 'phi':
        return all(x.startswith("('const'") for x in t[1]) if len(t) > 1 and isinstance(t[1], tuple) else False
    return False


def r_siblings(ctx, prog, scopes):
    R = 'R-SIBLINGS'
    ctx.rule(R, 'near-clone implementations (three copies of the GF algebra, two Reed-Solomon API layers, two linear-binary API layers) '
             'agree on their stores, calls, branch conditions and return values modulo the names that differ by construction', floor=1)
    n = 0
    for gname, members, scope in GROUPS:
        if scope not in scopes:
            continue
        sigs = []
        for name, unit, shift in members:
            f = prog.fn(name, unit)
            ctx.need(f is not None, R, 'sibling %s of group %s not found' % (name, gname))
            s, w = signature(f, shift, prog)
            sigs.append((name, f, s, w))
        if any(a[2] != sigs[0][2] for a in sigs):
            # two views of memory: with loads forwarded from the dominating store (a value re-read right after it was stored is
            # that value) and without (robust when a copy's stores moved to other blocks); a real disagreement shows in both
            alt = []
            for name, unit, shift in members:
                f = prog.fn(name, unit)
                s, w = signature(f, shift, prog, forward=False)
                alt.append((name, f, s, w))
            if sum(1 for a in alt if a[2] != alt[0][2]) < sum(1 for a in sigs if a[2] != sigs[0][2]) or \
                    all(a[2] == alt[0][2] for a in alt):
                sigs = alt
        n += 1
        ref = None
        if len(sigs) >= 3:
            # majority signature
            for a in sigs:
                if sum(1 for b in sigs if b[2] == a[2]) >= 2:
                    ref = a
        if ref is None:
            ref = sigs[0]
        for name, f, s, w in sigs:
            if f is ref[1]:
                continue
            d1 = s - ref[2]
            d2 = ref[2] - s
            ok = not d1 and not d2
            where = f
            detail = ''
            if not ok:
                t = (list(d1) + list(d2))[0]
                inst = w.get(t) or ref[3].get(t)
                where = inst if (t in w) else f
                detail = '; e.g. %s %s' % ('only here:' if t in d1 else 'missing here (present in %s at %s):' % (ref[0], ref[3][t].loc()),
                                           _show_tok(t))
            ctx.instance(R, ok, where, 'group:%s:%s' % (gname, name),
                         '%s and its sibling %s no longer agree (%d event(s) only in %s, %d only in %s)%s' %
                         (name, ref[0], sum(d1.values()), name, sum(d2.values()), ref[0], detail))
    ctx.need(n >= 1, R, 'no sibling group in scope')


def _show_tok(t):
    s = repr(t)
    return s if len(s) < 260 else s[:260] + '...'
