"""R-RO-FLOW (application buffers are only read), R-NULLSLOT, R-ENC-LOOP, R-ML-PIPELINE, R-2D-RADIX."""
from .ir import Terms, strip_casts, const_of, atoms_at, has_atom, show, ret_sources, loop_range, out_edges, cond_atoms, \
    calls_in_loop, blocks_reaching
from .effects import addr_root, ALLOCATORS
from .rules_decode import fld, L, is_field_load, _V, IT, ML, RS_FAMILY, LB_FAMILY, nonerror_returns, OK

# writer sinks: callee name -> indices of the parameters written through ('E' suffix: through the elements of an array param)
LIBC_SINKS = {'memcpy': [0], 'memset': [0], 'memmove': [0], 'bcopy': [1], 'bzero': [0]}
TABLE_FIELDS = ('encoding_symbols_tab', 'available_symbols_tab')


def write_summaries(prog):
    """fn key -> {param index: set(['W', 'WE'])}: writes through the pointer parameter / through the pointers stored in the
    array it points to.  Fixpoint over the call graph; libc writers are the base cases."""
    c = prog.__dict__.get('_wsum')
    if c is not None:
        return c
    summ = {}

    def key(f):
        return (f.unit.name, f.name) if f.internal else f.name
    for f in prog.all_functions:
        summ[key(f)] = {}
    changed = True
    while changed:
        changed = False
        for f in prog.all_functions:
            tt = Terms(f)
            cur = summ[key(f)]

            def note(t, kind='W'):
                # classify a written-through pointer term
                r = _param_root(f, tt, t)
                if r is not None:
                    idx, how = r
                    k2 = 'WE' if (how == 'elem' or kind == 'WE') else 'W'
                    if k2 not in cur.setdefault(idx, set()):
                        cur[idx].add(k2)
                        return True
                return False
            for i in f.all_insts():
                if i.op == 'store':
                    a = tt.term(i.ops[1])
                    if note(a):
                        changed = True
                elif i.op == 'call' and i.callee:
                    sinks = []
                    if i.callee in LIBC_SINKS:
                        sinks = [(j, 'W') for j in LIBC_SINKS[i.callee]]
                    else:
                        g = prog.callee_fn(i)
                        if g is not None:
                            for j, kinds in summ[key(g)].items():
                                for k2 in kinds:
                                    sinks.append((j, k2))
                    for j, k2 in sinks:
                        if j < len(i.args) and note(tt.term(i.args[j]), k2):
                            changed = True
    prog.__dict__['_wsum'] = (summ, key)
    return summ, key


def _param_root(f, tt, t, depth=0):
    """If address/pointer term t is derived from pointer parameter i: (i, 'direct') when it points into the parameter's own
    buffer, (i, 'elem') when it is a pointer loaded from the array the parameter points to."""
    if depth > 12 or not isinstance(t, tuple):
        return None
    if t[0] == 'param':
        return (t[1], 'direct')
    if t[0] in ('elem', 'field'):
        return _param_root(f, tt, t[1], depth + 1)
    if t[0] in ('load', 'load@'):
        r = _param_root(f, tt, t[1], depth + 1)
        if r is not None and r[1] == 'direct':
            # a pointer loaded from the parameter's buffer: only interesting when that buffer is a pointer table (void **)
            ty = f.params[r[0]]['ty'] if r[0] < len(f.params) else ''
            if ty.endswith('**'):
                return (r[0], 'elem')
        return None
    if t[0] == 'phi':
        roots = set()
        for x in f.insts[t[1]].ops:
            r = _param_root(f, tt, tt.term(x), depth + 1)
            if r is not None:
                roots.add(r)
        return roots.pop() if len(roots) == 1 else None
    if t[0] == 'bin' and t[1] in ('add', 'sub'):
        return _param_root(f, tt, t[2], depth + 1)
    return None


def _is_table_slot(t, f=None, tt=None):
    """term is a pointer loaded from a session symbol table slot: returns (table field, index term, address term).  The slot
    address may be a cursor walking the table (phi of table, cursor + 1): then the index is unknown ('?')."""
    if t[0] in ('load', 'load@'):
        a = t[1]
        if a[0] == 'elem':
            b = a[1]
            if b[0] in ('load', 'load@') and b[1][0] == 'field' and b[1][2] in TABLE_FIELDS:
                return b[1][2], a[2], a
        if f is not None:
            root = _cursor_root(f, tt, a)
            if root is not None:
                return root, ('cursor',), a
    return None


def _cursor_root(f, tt, a, depth=0, seen=None):
    """address `a` walks a symbol table: built from load(table member) by element steps and loop-carried phis"""
    if seen is None:
        seen = set()
    if depth > 10 or not isinstance(a, tuple):
        return None
    if a[0] in ('load', 'load@') and a[1][0] == 'field' and a[1][2] in TABLE_FIELDS:
        return a[1][2]
    if a[0] == 'elem':
        return _cursor_root(f, tt, a[1], depth + 1, seen)
    if a[0] == 'phi':
        if a[1] in seen:
            return None
        seen.add(a[1])
        roots = set()
        for x in f.insts[a[1]].ops:
            tx = tt.term(x)
            if tx == a:
                continue
            r = _cursor_root(f, tt, tx, depth + 1, seen)
            roots.add(r)
        roots.discard(None)
        return roots.pop() if len(roots) == 1 else None
    return None


def r_ro_flow(ctx, prog, codecs):
    R = 'R-RO-FLOW'
    ctx.rule(R, 'application buffers are only read: no destination of memcpy/memset/bzero/bcopy, of an XOR or GF kernel, or of a '
             'callee that writes through its parameter is a received symbol (the symbol parameter of the decode APIs, a pointer '
             'loaded from a symbol table) or an encoder\'s source symbol, except a slot the same function just filled with an '
             'allocator/callback result, or the repair slot being built', floor=1)
    summ, key = write_summaries(prog)
    from .rules_cb import _codec_of_fn
    n = 0
    for f in prog.all_functions:
        codec = _codec_of_fn(f)
        if codec is None:
            continue
        if not (set(codec) & set(codecs)):
            continue
        tt = Terms(f)
        is_decode_entry = f.name in [x['dec'] for x in RS_FAMILY + LB_FAMILY] + [IT, 'of_linear_binary_code_simplify_linear_system_with_a_symbol']
        is_encoder = f.name.endswith('build_repair_symbol')
        sinks = []
        for i in f.all_insts():
            if i.op == 'store':
                a = tt.term(i.ops[1])
                # direct store through a pointer: the pointer is the base of the address
                base = a
                while base[0] in ('elem', 'field'):
                    base = base[1]
                sinks.append((i, base, 'store'))
            elif i.op == 'call' and i.callee:
                js = []
                if i.callee in LIBC_SINKS:
                    js = [(j, 'W') for j in LIBC_SINKS[i.callee]]
                else:
                    g = prog.callee_fn(i)
                    if g is not None:
                        for j, kinds in summ[key(g)].items():
                            for k2 in kinds:
                                js.append((j, k2))
                for j, k2 in js:
                    if j < len(i.args):
                        sinks.append((i, tt.term(i.args[j]), k2 + ':' + i.callee))
        for inst, t, how in sinks:
            verdicts = _judge_dst(prog, f, tt, inst, t, how, is_decode_entry, is_encoder)
            for ok, keyx, msg in verdicts:
                n += 1
                ctx.instance(R, ok, inst, '%s:%s' % (f.name, keyx), msg)
    ctx.need(n >= min(6, 2 * len(codecs)), R, 'only %d write sinks judged' % n)


def _judge_dst(prog, f, tt, inst, t, how, is_decode_entry, is_encoder):
    out = []
    elemwise = how.startswith('WE')
    # resolve a phi of pointers into its alternatives
    alts = [t]
    if t[0] == 'phi':
        alts = [tt.term(x) for x in f.insts[t[1]].ops]
    for a in alts:
        if elemwise:
            # the callee writes through the pointers stored in the array `a`: a local array is fine if what was put into it is
            if a[0] == 'alloca' or (a[0] == 'elem' and a[1][0] == 'alloca'):
                base = a if a[0] == 'alloca' else a[1]
                for s in f.all_insts():
                    if s.op == 'store':
                        sa = tt.term(s.ops[1])
                        if sa[0] == 'elem' and sa[1] == base:
                            v = tt.term(s.ops[0])
                            sub = _judge_ptr(prog, f, tt, s, v, is_decode_entry, is_encoder, inst)
                            if sub is not None:
                                out.append(sub)
                continue
            r = _param_root(f, tt, a)
            if r is not None and is_encoder and r[0] == 1:
                out.append((False, 'callee-writes-table', '%s hands the application\'s symbol table to %s, which writes through its '
                            'entries' % (f.name, inst.callee)))
            continue
        sub = _judge_ptr(prog, f, tt, inst, a, is_decode_entry, is_encoder, inst)
        if sub is not None:
            out.append(sub)
    return out


def _judge_ptr(prog, f, tt, at, v, is_decode_entry, is_encoder, sink):
    """v is a pointer that gets written through at `sink`; is it an application buffer?"""
    what = sink.callee if sink.op == 'call' else 'a direct store'
    slot = _is_table_slot(v, f, tt)
    if slot is not None:
        table, idx, addr = slot
        # allowed: this function stored an allocator/callback result into this very slot on a dominating path
        for s in tt.stores_by_addr().get(addr, []):
            sv = tt.term(s.ops[0])
            if f.dominates(s, sink) and _fresh(f, tt, sv):
                return (True, 'slot-just-filled:%s' % table, '')
        # the slot may also have been filled on both sides of a diamond (callback / allocator)
        # "slot was empty, then filled by the callback and/or the allocator": the slot is known NULL before the first of the
        # stores that can reach the sink, and all of those store a fresh buffer -- no received pointer can arrive here
        sts = [s for s in tt.stores_by_addr().get(addr, []) if s.block.id in blocks_reaching(f, [sink.block])]
        if sts and all(_fresh(f, tt, tt.term(s.ops[0])) for s in sts) and \
                has_atom(atoms_at(f, tt, sink.block), 'eq', ('load', addr), ('const', 0)):
            return (True, 'slot-just-filled:%s' % table, '')
        return (False, 'writes-table-symbol:%s' % table,
                '%s writes (%s) through %s[%s], a symbol held in the session table that this function did not just allocate: a '
                'received symbol would be modified' % (f.name, what, table, show(idx)[:30]))
    r = _param_root(f, tt, v)
    if r is not None:
        idx, howp = r
        if is_decode_entry and idx == 1 and howp == 'direct':
            return (False, 'writes-received-symbol', '%s writes (%s) through the symbol buffer the application passed in' % (f.name, what))
        if is_encoder and idx == 1 and howp == 'elem':
            # encoders: only the slot being built may be written
            if v[0] in ('load', 'load@') and v[1][0] == 'elem' and v[1][1] == ('param', 1) and v[1][2] == ('param', 2):
                return (True, 'repair-slot', '')
            return (False, 'writes-source-symbol', '%s writes (%s) through encoding_symbols_tab[%s], which is not the repair symbol being '
                    'built' % (f.name, what, show(v[1][2])[:30] if v[0] in ('load', 'load@') else '?'))
    return None


def _fresh(f, tt, sv, depth=0):
    if sv[0] == 'call' and sv[1] in ALLOCATORS:
        return True
    if sv[0] == 'icall':
        return True
    if sv[0] == 'phi' and depth < 3:
        vals = [tt.term(x) for x in f.insts[sv[1]].ops]
        return all(_fresh(f, tt, x, depth + 1) or x == ('const', 0) for x in vals)
    return False


def _all_paths_store(f, stores, sink):
    sb = [s.block for s in stores]
    r = f.reachable(f.entry, stop=sb)
    return sink.block.id not in r or sink.block in sb


# ------------------------------------------------------------------ R-NULLSLOT
def r_nullslot(ctx, prog, codecs):
    R = 'R-NULLSLOT'
    ctx.rule(R, 'each build_repair_symbol writes the output slot only after testing it against NULL, and on the NULL edge stores a '
             'library allocation of encoding_symbol_length bytes back into the slot', floor=1)
    names = {1: 'of_rs_build_repair_symbol', 2: 'of_rs_2_m_build_repair_symbol', 3: 'of_ldpc_staircase_build_repair_symbol',
             5: 'of_2d_parity_build_repair_symbol'}
    summ, key = write_summaries(prog)
    for c in codecs:
        f = prog.need_fn(names[c], R)
        tt = Terms(f)
        slot_addr = ('elem', ('param', 1), ('param', 2))
        slot = ('load', slot_addr)
        # blocks where the slot is known non-NULL or has just been assigned an allocation
        fills = [s for s in tt.stores_by_addr().get(slot_addr, []) if tt.term(s.ops[0])[0] == 'call' and tt.term(s.ops[0])[1] in ALLOCATORS]
        okfill = bool(fills)
        for s in fills:
            call = f.insts[tt.term(s.ops[0])[2]]
            args = [tt.term(a) for a in call.args]
            okfill = okfill and any(is_field_load(a, 'encoding_symbol_length') for a in args) and \
                has_atom(atoms_at(f, tt, s.block), 'eq', slot, ('const', 0))
        ctx.instance(R, okfill, fills[0] if fills else f, names[c] + ':allocates',
                     '%s must replace a NULL output slot by a library allocation of encoding_symbol_length bytes' % names[c])
        # every write through the slot happens where it cannot be NULL
        bad = None
        removed = []
        for b in f.blocks:
            for s2, lab in out_edges(b):
                if lab and lab[0] == 'br':
                    for a in cond_atoms(tt, lab[1], lab[2]):
                        if a[0] == 'cmp' and a[1] == 'ne' and a[2] == slot and a[3] == ('const', 0):
                            removed.append((b.id, s2.id))
        reach = f.reachable(f.entry, removed=removed, stop=[s.block for s in fills])
        for i in f.all_insts():
            writes = False
            if i.op == 'call' and i.callee:
                js = LIBC_SINKS.get(i.callee)
                if js is None:
                    g = prog.callee_fn(i)
                    js = [j for j in summ[key(g)]] if g is not None else []
                for j in js:
                    if j < len(i.args) and tt.term(i.args[j]) == slot:
                        writes = True
            if writes and i.block.id in reach and not any(sf.block is i.block and sf.pos < i.pos for sf in fills):
                bad = i
        ctx.instance(R, bad is None, bad or f, names[c] + ':null-checked',
                     '%s writes through encoding_symbols_tab[esi] on a path where the slot may still be NULL' % names[c])


# ------------------------------------------------------------------ R-ENC-LOOP
def r_enc_loop(ctx, prog, codecs):
    R = 'R-ENC-LOOP'
    ctx.rule(R, 'RS encoders zero the output and add exactly the k source symbols scaled by row `index` of the generator; the LDPC '
             'encoder zeroes the output and XORs exactly the other entries of its equation', floor=1)
    if 1 in codecs:
        _rs_enc(ctx, prog, R, 'of_rs_encode', 'of_reed-solomon_gf_2_8.c', 'of_addmul1')
    if 2 in codecs:
        _rs_enc(ctx, prog, R, 'of_rs_2m_encode', 'of_galois_field_code.c', None)
    for c, name in ((3, 'of_ldpc_staircase_build_repair_symbol'), (5, 'of_2d_parity_build_repair_symbol')):
        if c not in codecs:
            continue
        f = prog.need_fn(name, R)
        tt = Terms(f)
        zero = [x for x in f.calls('memset') if const_of(x.args[1]) == 0]
        adds = [x for x in f.calls('of_add_to_symbol')]
        ctx.need(adds, R, '%s no longer calls of_add_to_symbol' % name)
        okz = bool(zero) and all(f.dominates(zero[0], a) for a in adds) and \
            all(tt.term(a.args[0]) == tt.term(zero[0].args[0]) for a in adds)
        ctx.instance(R, okz, zero[0] if zero else f, name + ':zeroed', '%s must zero the repair symbol before accumulating into it' % name)
        for a in adds:
            atoms = atoms_at(f, tt, a.block)
            # guarded by e->col != col_to_build, with e the entry whose column selects the operand
            okg = any(x[0] == 'cmp' and x[1] == 'ne' and _is_entry_col(x[2]) for x in atoms) or \
                any(x[0] == 'cmp' and x[1] == 'ne' and _is_entry_col(x[3]) for x in atoms)
            ctx.instance(R, okg, a, name + ':skips-self', '%s must add every entry of the equation except the symbol being built' % name)
        # the traversal advances on every path of the loop body (e = e->right in the latch region)
        lps = [lp for lp in f.loops.values() if any(x.block.id in lp.blocks for x in adds)]
        okadv = False
        for lp in lps:
            for ph in lp.header.insts:
                if ph.op == 'phi':
                    inc = [tt.term(v) for b, v in ph.incoming if b in lp.blocks]
                    if inc and all(v[0] in ('load', 'load@') and v[1][0] == 'field' and v[1][2] == 'right' and v[1][1] == ('phi', ph.id) for v in inc):
                        okadv = True
        ctx.instance(R, okadv, adds[0], name + ':traversal', '%s must walk the whole row (e = e->right on every path)' % name)
        # no entry other than the symbol being built is skipped: from the "not my own column" edge every path to the next
        # iteration passes an accumulation
        from .ir import out_edges as _oe, cond_atoms as _ca
        addb = set(a.block.id for a in adds)
        for lp in lps:
            skipped = None
            for b2 in f.blocks:
                if b2.id not in lp.blocks:
                    continue
                for s3, lab3 in _oe(b2):
                    if lab3 is None or lab3[0] != 'br' or s3.id not in lp.blocks:
                        continue
                    if any(a3[0] == 'cmp' and a3[1] == 'ne' and (_is_entry_col(a3[2]) or _is_entry_col(a3[3])) for a3 in _ca(tt, lab3[1], lab3[2])):
                        rem3 = [(bid, x.id) for bid in addb for x in f.bmap[bid].succs]
                        r3 = f.reachable(s3, removed=rem3, stop=[lp.header])
                        if s3.id not in addb and any(l3.id in r3 for l3 in lp.latches):
                            skipped = b2.term()
            ctx.instance(R, skipped is None, skipped or lp.header.term(), name + ':no-other-skip',
                         '%s can move on to the next entry of the equation without adding the current one (other than the symbol '
                         'being built): the repair symbol no longer satisfies its parity equation' % name)
        # the result is OK only after the whole equation was summed: no OK return before the accumulation loop
        for lp in lps:
            for v, chain, r in ret_sources(f):
                if const_of(v) != 0:
                    continue
                src = f.bmap[chain[0][0]] if chain else r.block
                early = not f.bdom(lp.header, src)
                ctx.instance(R, not early, src.term(), name + ':ok-after-sum',
                             '%s returns OF_STATUS_OK on a path that does not run the accumulation loop: the caller gets a symbol '
                             'that was not computed from its equation' % name)


def _is_entry_col(t):
    return t[0] in ('load', 'load@') and t[1][0] == 'field' and t[1][2] == 'col'


def _rs_enc(ctx, prog, R, name, unit, kernel):
    f = prog.fn(name, unit) or prog.fn(name)
    ctx.need(f is not None, R, '%s not found' % name)
    tt = Terms(f)
    zero = [x for x in f.calls() if x.callee in ('bzero', 'memset')]
    loops = [lp for lp in f.loops.values() if lp.depth == 1]
    ok = False
    why = 'no accumulation loop over the k source symbols found'
    for lp in loops:
        lr = loop_range(f, lp, tt)
        if lr is None:
            continue
        calls = [c for c in calls_in_loop(f, lp) if c.callee and 'addmul1' in c.callee]
        if not calls:
            continue
        kterm = lr.bound
        okr = lr.start == ('const', 0) and lr.step == 1 and lr.pred in ('slt', 'ult') and \
            (is_field_load(kterm, 'k', None) or is_field_load(kterm, 'nb_source_symbols', None))
        iv = tt.term(_V(lr.iv))
        okargs = True
        for c in calls:
            a = [tt.term(x) for x in c.args]
            dst_ok = bool(zero) and a[0] == tt.term(zero[0].args[0])
            src_ok = a[1] == ('load', ('elem', ('param', 1), iv))
            okargs = okargs and dst_ok and src_ok and f.dominates(zero[0], c)
        ok = okr and okargs
        why = 'loop "%s" / arguments do not add src[i] for every i in [0, k) into the zeroed output' % lr.describe()
    ctx.instance(R, ok, f, name + ':accumulate', '%s: %s' % (name, why))


# ------------------------------------------------------------------ R-ML-PIPELINE
def r_ml_pipeline(ctx, prog):
    R = 'R-ML-PIPELINE'
    ctx.rule(R, 'every path of the ML routine to OK through the solver passes, in this order: injection of all k source slots, '
             'injection of all n-k repair slots, creation of the simplified system, conversion to dense, the dense solver, and the '
             'write-back loop over all k source slots', floor=1)
    f = prog.need_fn(ML, R)
    tt = Terms(f)
    SIMPL = 'of_linear_binary_code_simplify_linear_system_with_a_symbol'
    k = L(fld(prog, 'of_linear_binary_code_cb', 'nb_source_symbols'))
    r = L(fld(prog, 'of_linear_binary_code_cb', 'nb_repair_symbols'))
    stages = {}
    for lp in f.loops.values():
        if lp.depth != 1:
            continue
        lr = loop_range(f, lp, tt)
        if lr is None or lr.start != ('const', 0) or lr.step != 1:
            continue
        calls = [c for c in calls_in_loop(f, lp) if c.callee == SIMPL]
        iv = tt.term(_V(lr.iv))
        if calls and lr.bound == k:
            c = calls[0]
            a = [tt.term(x) for x in c.args]
            if a[2] == iv and a[1] == ('load', ('elem', L(fld(prog, 'of_linear_binary_code_cb', 'encoding_symbols_tab')), iv)):
                stages['inject-sources'] = lp.header
        if calls and lr.bound == r:
            stages['inject-repairs'] = lp.header
        sts = [s for s in f.all_insts() if s.op == 'store' and s.block.id in lp.blocks and
               addr_root(tt.term(s.ops[1])) == ('elems', 'encoding_symbols_tab') and tt.term(s.ops[1])[2] == iv]
        if sts and lr.bound == k and not calls:
            stages['write-back'] = lp.header
    for nm, callee in (('simplified-system', 'of_linear_binary_code_create_simplified_linear_system'),
                       ('to-dense', 'of_mod2sparse_to_dense'), ('solve', 'of_linear_binary_code_solve_dense_system')):
        cs = [c for c in f.calls(callee)]
        if cs:
            stages[nm] = cs[0].block
    order = ['inject-sources', 'inject-repairs', 'simplified-system', 'to-dense', 'solve', 'write-back']
    for nm in order:
        ctx.instance(R, nm in stages, f, 'stage:' + nm, 'the ML routine has no recognisable stage "%s"' % nm)
    if all(nm in stages for nm in order):
        okord = all(f.bdom(stages[order[i]], stages[order[i + 1]]) for i in range(len(order) - 1))
        ctx.instance(R, okord, f, 'stage-order', 'the ML stages are not executed in the order %s on every path' % ' -> '.join(order))
        # OK returns that rely on the solver come after the write-back
        for v, src, ret in nonerror_returns(prog, f):
            if const_of(v) != OK:
                continue
            atoms = atoms_at(f, tt, src)
            via_solver = any(a[0] == 'cmp' and a[2][0] == 'call' and a[2][1] == 'of_linear_binary_code_solve_dense_system' for a in atoms)
            if via_solver:
                ctx.instance(R, f.bdom(stages['write-back'], src), ret, 'ok-after-write-back',
                             'OK is returned after the solver without the write-back of the decoded source symbols')


# ------------------------------------------------------------------ R-2D-RADIX
def r_2d_radix(ctx, prog):
    """The 2D parity fill: in each two-level loop nest the column of the inserted entry is base + a*i + b*j; for the entries of
    one check to be distinct source symbols and for the row checks / column checks to partition the k = d*l sources, the
    coefficients must be the mixed-radix pair (range of the other index, 1)."""
    R = 'R-2D-RADIX'
    ctx.rule(R, 'in of_fill_2D_pchk_matrix every two-level nest addresses source column base + (range of the unit-stride index) * '
             '(other index) + (unit-stride index): row checks and column checks each cover every source symbol exactly once', floor=1)
    f = prog.need_fn('of_fill_2D_pchk_matrix', R)
    tt = Terms(f)
    n = 0
    for lp in f.loops.values():
        if lp.depth != 2:
            continue
        outer = lp.parent
        lr_in = loop_range(f, lp, tt)
        lr_out = loop_range(f, outer, tt)
        if lr_in is None or lr_out is None:
            continue
        ins = [c for c in calls_in_loop(f, lp) if c.callee == 'of_mod2sparse_insert']
        if not ins:
            continue
        n += 1
        iv_in, iv_out = tt.term(_V(lr_in.iv)), tt.term(_V(lr_out.iv))
        col = tt.term(ins[0].args[2])
        coef = _lin2(col, iv_in, iv_out)
        if coef is None:
            ctx.fail(R, ins[0], 'nest%d:form' % n, 'column expression %s is not affine in the two loop counters' % show(col)[:80])
            continue
        a_in, a_out, rest = coef
        rng_in = _range_len(lr_in)
        rng_out = _range_len(lr_out)
        # one of the two indices has unit stride; the other one's stride must equal the unit-stride index's range
        from .rules_own import _lin
        ok = False
        if a_in == ('const', 1):
            ok = _lin(a_out) == _lin(rng_in)
        elif a_out == ('const', 1):
            ok = _lin(a_in) == _lin(rng_out)
        ctx.instance(R, ok, ins[0], 'nest%d:radix' % n,
                     'entries are inserted at column base + %s*inner + %s*outer with inner range %s and outer range %s: the strides do not '
                     'form a mixed radix, so some source symbols fall in no check (or two) of this family' %
                     (show(a_in), show(a_out), show(rng_in), show(rng_out)))
        # each family of checks covers the d x l grid of source symbols exactly: the two ranges are d and l (in some order)
        want = sorted([repr(_lin(('param', 1))), repr(_lin(('param', 2)))])
        got = sorted([repr(_lin(rng_in)), repr(_lin(rng_out))])
        ctx.instance(R, got == want, lr_in.cmp, 'nest%d:grid' % n,
                     'the nest runs over %s x %s entries; each family of checks must cover the d x l source symbols exactly once' %
                     (show(rng_out)[:30], show(rng_in)[:30]))
    ctx.need(n >= 2, R, 'fewer than two insertion nests found')


def _range_len(lr):
    if lr.start == ('const', 0):
        return lr.bound
    return ('bin', 'sub', lr.bound, lr.start)


def _lin2(t, x, y):
    """t = a*x + b*y + rest with a, b terms (const or parameter); returns (a, b, rest) or None"""
    parts = _flatten(t)
    a = b = None
    rest = []
    for p in parts:
        cx = _coef(p, x)
        cy = _coef(p, y)
        if cx is not None and a is None:
            a = cx
        elif cy is not None and b is None:
            b = cy
        elif cx is not None or cy is not None:
            return None
        else:
            rest.append(p)
    if a is None or b is None:
        # (i - d) form: y appears inside a subtraction
        return None
    return a, b, rest


def _flatten(t):
    if t[0] == 'bin' and t[1] == 'add':
        return _flatten(t[2]) + _flatten(t[3])
    if t[0] == 'bin' and t[1] == 'sub':
        return _flatten(t[2]) + [('neg', x) for x in _flatten(t[3])]
    return [t]


def _coef(p, v):
    if p == v:
        return ('const', 1)
    if p[0] == 'bin' and p[1] == 'mul':
        if p[2] == v:
            return p[3]
        if p[3] == v:
            return p[2]
    return None


# ------------------------------------------------------------------ R-ML-GIVEUP
def r_ml_giveup(ctx, prog):
    """ML decoding may give up before solving only when the simplified system is under-determined: an edge of the ML pipeline that
    leads to non-OK returns only and whose condition compares the number of remaining rows with the number of remaining columns
    must be exactly "fewer rows than columns" (a square system with an invertible matrix is uniquely solvable)."""
    from .ir import out_edges, cond_atoms, NEG, SWAP
    from .rules_param import _only_nonok
    R = 'R-ML-GIVEUP'
    ctx.rule(R, 'the ML pipeline gives up on dimension grounds only when remaining rows < remaining columns (strictly)', floor=1)
    names = [ML, 'of_linear_binary_code_create_simplified_linear_system']
    n = 0
    for nm in names:
        f = prog.need_fn(nm, R)
        tt = Terms(f, forward=True)
        for b in f.blocks:
            for s2, lab in out_edges(b):
                if lab is None or lab[0] != 'br':
                    continue
                if not _only_nonok(f, s2, b) or _only_nonok(f, b, None):
                    continue
                for a in cond_atoms(tt, lab[1], lab[2]):
                    if a[0] != 'cmp':
                        continue
                    x, y = _dim(a[2]), _dim(a[3])
                    if x is None or y is None or x == y:
                        continue
                    pred = a[1]
                    if x == 'remain_cols':
                        pred = SWAP[pred]
                    n += 1
                    ctx.instance(R, pred in ('ult', 'slt'), b.term(), 'giveup:%s' % nm,
                                 '%s gives up when remaining rows %s remaining columns; only "rows < columns" makes the system '
                                 'unsolvable -- a square (or over-determined) system of full column rank has a unique solution' % (nm, pred))
    if n == 0:
        ctx.ok(R, prog.fn(names[1]), 'giveup:none', 'no dimension-based give-up (the solver decides)')


def _dim(t):
    while isinstance(t, tuple) and t[0] in ('trunc',):
        t = t[2]
    if isinstance(t, tuple) and t[0] in ('load', 'load@') and t[1][0] == 'field' and t[1][2] in ('remain_rows', 'remain_cols'):
        return t[1][2]
    return None


# ------------------------------------------------------------------ R-INIT-ORDER
def field_mods(prog):
    """fn key -> {param index: set(byte offsets of members stored directly in the object the parameter points to)}, transitively
    through callees that receive the same pointer (casts between the control-block views are transparent; R-LAYOUT makes the
    offsets agree)."""
    c = prog.__dict__.get('_fmods')
    if c is not None:
        return c

    def key(f):
        return (f.unit.name, f.name) if f.internal else f.name
    summ = dict((key(f), {}) for f in prog.all_functions)
    tts = {}
    changed = True
    while changed:
        changed = False
        for f in prog.all_functions:
            tt = tts.get(key(f))
            if tt is None:
                tt = tts[key(f)] = Terms(f)
            cur = summ[key(f)]
            for i in f.all_insts():
                if i.op == 'store':
                    a = tt.term(i.ops[1])
                    if a[0] == 'field' and a[1][0] == 'param':
                        s = cur.setdefault(a[1][1], set())
                        if a[3] not in s:
                            s.add(a[3])
                            changed = True
                elif i.op == 'call' and i.callee:
                    g = prog.callee_fn(i)
                    if g is None:
                        continue
                    for j, offs in summ[key(g)].items():
                        if j < len(i.args):
                            t = tt.term(i.args[j])
                            if t[0] == 'param':
                                s = cur.setdefault(t[1], set())
                                if not offs <= s:
                                    s |= offs
                                    changed = True
    prog.__dict__['_fmods'] = (summ, key)
    return summ, key


def r_init_order(ctx, prog, codecs):
    """In set_fec_parameters a constant initialisation of a control-block member must not come after a call that may already have
    updated that member (the LDPC decoder pre-loads the known-null last repair symbol from inside set_fec_parameters: counters
    zeroed after that point lose the update)."""
    R = 'R-INIT-ORDER'
    SETP = {1: 'of_rs_set_fec_parameters', 2: 'of_rs_2_m_set_fec_parameters', 3: 'of_ldpc_staircase_set_fec_parameters',
            5: 'of_2d_parity_set_fec_parameters'}
    ctx.rule(R, 'in every set_fec_parameters no member is (re)initialised with a constant after a call that may have updated it', floor=1)
    summ, key = field_mods(prog)
    n = 0
    for cid, name in sorted(SETP.items()):
        if cid not in codecs:
            continue
        f = prog.need_fn(name, R)
        tt = Terms(f)
        calls = []
        for c in f.calls():
            g = prog.callee_fn(c)
            if g is None:
                continue
            for j, offs in summ[key(g)].items():
                if j < len(c.args) and tt.term(c.args[j]) == ('param', 0):
                    calls.append((c, offs))
        for s in f.all_insts():
            if s.op != 'store':
                continue
            a = tt.term(s.ops[1])
            if not (a[0] == 'field' and a[1] == ('param', 0)) or const_of(s.ops[0]) is None:
                continue
            n += 1
            bad = None
            for c, offs in calls:
                if a[3] not in offs:
                    continue
                before = (c.block.id == s.block.id and c.block.insts.index(c) < s.block.insts.index(s)) or \
                    (c.block.id != s.block.id and s.block.id in f.reachable(c.block))
                if before:
                    bad = c
            ctx.instance(R, bad is None, s, 'init:%s:%s' % (name, a[2]),
                         '%s sets member %s to a constant after calling %s, which may already have updated it: the update is lost' %
                         (name, a[2], bad.callee if bad else ''))
    ctx.need(n >= 1, R, 'no constant initialisation found in any set_fec_parameters')


# ------------------------------------------------------------------ R-2D-DIVISIBLE
def r_2d_divisible(ctx, prog):
    """of_create_2D_pchk_matrix accepts (k, n-k) only for a factorisation k = d*l, d + l = n-k, found by testing that the quotient
    k/d has no fractional part.  The test is vacuous -- every d is "a divisor" -- when its operand has already been truncated to
    an integer; then non-factorable (k, n-k) are accepted and the matrix built covers fewer than k source symbols."""
    R = 'R-2D-DIVISIBLE'
    ctx.rule(R, 'the "quotient has no fractional part" test that selects the 2D factorisation is applied to the untruncated quotient', floor=1)
    f = prog.need_fn('of_create_2D_pchk_matrix', R)
    tt = Terms(f)
    n = 0

    def strip(t):
        while isinstance(t, tuple) and t[0] == 'conv' and t[1] in ('fpext', 'fptrunc'):
            t = t[2]
        return t

    def integral(t):
        t = strip(t)
        return isinstance(t, tuple) and t[0] == 'conv' and t[1] in ('uitofp', 'sitofp')
    for i in f.all_insts():
        if i.op != 'fcmp':
            continue
        t = tt.term(_V(i))
        if t[0] != 'cmp' or t[3] != ('fconst', 0) and t[3] != ('fconst', 0.0):
            continue
        x = t[2]
        if not (isinstance(x, tuple) and x[0] == 'bin' and x[1] == 'fsub'):
            continue
        a, b = x[2], x[3]
        isfloor = isinstance(b, tuple) and b[0] == 'call' and 'floor' in b[1]
        if not isfloor:
            continue
        n += 1
        ctx.instance(R, not integral(a), i, '2d:fraction-test',
                     'the fractional-part test of the quotient (n-k taken out of n)/d is applied to a value already converted to an '
                     'integer: it always succeeds, so parameter pairs that are not d*l / d+l factorable are accepted')
    if n == 0:
        ctx.ok(R, f, '2d:fraction-test:none', 'no floating-point fractional-part test (factorisation decided otherwise)')
