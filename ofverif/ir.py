"""Value origins (A3), guards (A4) and small CFG helpers (A2) over the program database."""
from .pdb import AnalysisBroken

TRANSPARENT_CASTS = ('bitcast', 'zext', 'sext', 'inttoptr', 'ptrtoint', 'addrspacecast')

NEG = {'eq': 'ne', 'ne': 'eq', 'ugt': 'ule', 'uge': 'ult', 'ult': 'uge', 'ule': 'ugt',
       'sgt': 'sle', 'sge': 'slt', 'slt': 'sge', 'sle': 'sgt'}
SWAP = {'eq': 'eq', 'ne': 'ne', 'ugt': 'ult', 'uge': 'ule', 'ult': 'ugt', 'ule': 'uge',
        'sgt': 'slt', 'sge': 'sle', 'slt': 'sgt', 'sle': 'sge'}


def strip_casts(v):
    """Follow transparent casts down to the underlying operand (a V)."""
    while True:
        if v.k == 'i' and v.inst is not None and v.inst.op in TRANSPARENT_CASTS:
            v = v.inst.ops[0]
        elif v.k == 'ce' and v.op in TRANSPARENT_CASTS:
            v = v.ops[0]
        else:
            return v


def const_of(v):
    v = strip_casts(v)
    if v.k == 'c':
        return v.v
    if v.k == 'null':
        return 0
    return None


class Terms(object):
    """Access-path normalisation of SSA values within one function.

    term(v) is a hashable tuple:
      ('const', n) ('null',) ('undef',) ('param', i) ('global', name) ('func', name)
      ('field', base, fieldname, byteoffset) ('elem', base, index) -- addresses
      ('load', address) ('bin', op, a, b) ('cmp', pred, a, b) ('trunc', bits, a)
      ('call', callee, inst id) ('icall', inst id) ('phi', inst id) ('alloca', inst id)
      ('select', c, a, b) ('op', opcode, inst id)
    Loads are forwarded from the unique dominating store to the same address term
    when every store to that address in the function dominates the load.
    """

    def __init__(self, fn, forward=False):
        self.fn = fn
        self.forward = forward
        self.memo = {}
        self._stores = None

    def stores_by_addr(self):
        if self._stores is None:
            self._stores = {}
            for i in self.fn.all_insts():
                if i.op == 'store':
                    a = self.addr(i.ops[1])
                    self._stores.setdefault(a, []).append(i)
        return self._stores

    def addr(self, v):
        return self.term(v)

    def term(self, v):
        k = v.k
        if k == 'i':
            i = v.inst
            t = self.memo.get(i.id)
            if t is None:
                if i.op == 'phi':
                    # cycle guard: a loop-carried phi stands for itself while its inputs are being normalised
                    self.memo[i.id] = ('phi', i.id)
                    before = set(self.memo)
                    t = self._inst(i)
                    if t != ('phi', i.id):
                        # the phi collapsed to a single value: terms normalised meanwhile mention the placeholder; redo them lazily
                        for k2 in set(self.memo) - before:
                            del self.memo[k2]
                    self.memo[i.id] = t
                else:
                    self.memo[i.id] = ('op', i.op, i.id)  # cycle guard
                    t = self._inst(i)
                    self.memo[i.id] = t
            return t
        if k == 'c':
            return ('const', v.v)
        if k == 'null':
            return ('const', 0)
        if k == 'a':
            return ('param', v.idx)
        if k == 'g':
            return ('global', v.name)
        if k == 'f':
            return ('func', v.name)
        if k == 'undef':
            return ('undef',)
        if k == 'cf':
            return ('fconst', v.v)
        if k == 'ce':
            if v.op in TRANSPARENT_CASTS:
                return self.term(v.ops[0])
            if v.op == 'getelementptr':
                g, off = v.strip_global()
                if g is not None:
                    return ('global', g) if off == 0 else ('goff', g, off)
            return ('ce', v.op, tuple(self.term(o) for o in v.ops))
        return (k,)

    def _can_reach(self, s, i):
        if s.block is i.block and s.block.insts.index(s) < s.block.insts.index(i):
            return True
        c = self.__dict__.setdefault('_succ_reach', {})
        r = c.get(s.block.id)
        if r is None:
            r = set()
            for s2 in s.block.succs:
                r |= self.fn.reachable(s2)
            c[s.block.id] = r
        return i.block.id in r

    def _gep(self, i):
        base = self.term(i.ops[0])
        for st in i.path:
            kind = st['kind']
            if kind == 'ptr':
                c = const_of(st['idxv'])
                if c == 0:
                    continue
                base = ('elem', base, self.term(st['idxv']))
            elif kind == 'field':
                base = ('field', base, st['field'], st['off'])
            elif kind == 'array':
                base = ('elem', base, self.term(st['idxv']))
            else:
                base = ('op', 'gep?', i.id)
        return base

    def _inst(self, i):
        op = i.op
        if op in TRANSPARENT_CASTS:
            return self.term(i.ops[0])
        if op == 'getelementptr':
            return self._gep(i)
        if op == 'load':
            a = self.term(i.ops[0])
            if self.forward and a[0] in ('field', 'elem', 'global', 'goff', 'alloca'):
                st = self.stores_by_addr().get(a)
                if st:
                    # a store from which the load cannot be reached (it comes later and no cycle leads back) is irrelevant
                    st = [s for s in st if self._can_reach(s, i)] or st
                    doms = [s for s in st if self.fn.dominates(s, i)]
                    if len(doms) == len(st):
                        # all stores dominate the load: they are totally ordered; take the last
                        last = doms[0]
                        for s in doms[1:]:
                            if self.fn.dominates(last, s):
                                last = s
                        return self.term(last.ops[0])
                    return ('load@', a, i.id)
            return ('load', a)
        if op == 'alloca':
            return ('alloca', i.id)
        if op == 'phi':
            vals = set(self.term(x) for x in i.ops if not (x.k == 'i' and x.inst is i))
            if len(vals) == 1:
                return vals.pop()
            return ('phi', i.id)
        if op == 'call':
            if i.callee:
                return ('call', i.callee, i.id)
            return ('icall', i.id)
        if op in ('add', 'sub', 'mul', 'udiv', 'sdiv', 'urem', 'srem', 'and', 'or', 'xor', 'shl', 'lshr',
                  'ashr', 'fadd', 'fsub', 'fmul', 'fdiv'):
            return ('bin', op, self.term(i.ops[0]), self.term(i.ops[1]))
        if op in ('icmp', 'fcmp'):
            return ('cmp', i.pred, self.term(i.ops[0]), self.term(i.ops[1]))
        if op == 'trunc':
            return ('trunc', i.ty, self.term(i.ops[0]))
        if op == 'select':
            return ('select', self.term(i.ops[0]), self.term(i.ops[1]), self.term(i.ops[2]))
        if op in ('uitofp', 'sitofp', 'fptoui', 'fptosi', 'fpext', 'fptrunc'):
            return ('conv', op, self.term(i.ops[0]))
        return ('op', op, i.id)


def show(t):
    """Readable rendering of a term."""
    if not isinstance(t, tuple):
        return str(t)
    k = t[0]
    if k == 'const':
        return str(t[1])
    if k == 'param':
        return 'arg%d' % t[1]
    if k == 'global':
        return '@' + t[1]
    if k == 'field':
        return '%s->%s' % (show(t[1]), t[2])
    if k == 'elem':
        return '%s[%s]' % (show(t[1]), show(t[2]))
    if k in ('load', 'load@'):
        a = t[1]
        if a[0] == 'field':
            return '%s->%s' % (show(a[1]), a[2])
        if a[0] == 'elem':
            return '%s[%s]' % (show(a[1]), show(a[2]))
        return '*' + show(a)
    if k == 'bin':
        return '(%s %s %s)' % (show(t[2]), t[1], show(t[3]))
    if k == 'cmp':
        return '(%s %s %s)' % (show(t[2]), t[1], show(t[3]))
    if k == 'call':
        return '%s()#%d' % (t[1], t[2])
    return '%s%s' % (k, ''.join(':' + show(x) for x in t[1:]))


# ------------------------------------------------------------------ guards
def out_edges(block):
    """[(succ block, label)] where label describes the condition under which the edge is taken:
    ('br', condV, True/False) | ('switch', condV, value) | ('switch-default', condV, [values]) | None."""
    t = block.term()
    if t.op == 'br' and len(t.ops) == 3:
        T, F = block.succs[0], block.succs[1]
        if T is F:
            return [(T, None)]
        return [(T, ('br', t.ops[0], True)), (F, ('br', t.ops[0], False))]
    if t.op == 'switch':
        out = []
        by = {}
        for val, bid in t.cases:
            by.setdefault(bid, []).append(val)
        for bid, vals in by.items():
            if bid == t.default:
                continue
            if len(vals) == 1:
                out.append((block.fn.bmap[bid], ('switch', t.cond, vals[0])))
            else:
                out.append((block.fn.bmap[bid], ('switch-in', t.cond, sorted(vals))))
        out.append((block.fn.bmap[t.default], ('switch-default', t.cond,
                                               sorted(v for v, b in t.cases if b != t.default))))
        return out
    return [(s, None) for s in block.succs]


def edge_dominates(fn, src, dst, target):
    """Every path entry -> target uses edge src->dst."""
    if target.din < 0:
        return False
    if not fn.bdom(src, target):
        return False
    r = fn.reachable(fn.entry, removed=[(src.id, dst.id)])
    return target.id not in r


def guards_at(fn, block):
    """Edge labels (see out_edges) that hold on every path from entry to `block`:
    list of (branch block, successor block, label)."""
    cache = fn.__dict__.setdefault('_guards', {})
    if block.id in cache:
        return cache[block.id]
    res = []
    d = block.idom
    chain = []
    while d is not None and d is not False:
        chain.append(d)
        d = d.idom
    for b in chain:
        es = out_edges(b)
        if len(es) < 2:
            continue
        for s, lab in es:
            if lab is not None and edge_dominates(fn, b, s, block):
                res.append((b, s, lab))
    cache[block.id] = res
    return res


def cond_atoms(terms, condv, polarity):
    """Atoms implied by `condv` being `polarity`.  Returns a list of ('cmp', pred, a, b) terms that
    all hold (conjunction).  Unknown shapes give ('cmp','ne'/'eq', term, 0)."""
    v = condv
    # peel zext / trunc-to-i1 / xor true / icmp ne 0
    while True:
        if v.k == 'i' and v.inst is not None:
            i = v.inst
            if i.op in ('zext', 'sext', 'bitcast'):
                v = i.ops[0]
                continue
            if i.op == 'trunc' and i.ty == 'i1':
                v = i.ops[0]
                continue
            if i.op == 'xor' and const_of(i.ops[1]) in (1, -1, True) and i.ty == 'i1':
                v = i.ops[0]
                polarity = not polarity
                continue
            if i.op == 'select' and len(i.ops) == 3:
                # `c ? true : false` / `c ? false : true` (the project's boolean macros, possibly kept in a local)
                ka, kb = const_of(i.ops[1]), const_of(i.ops[2])
                if ka is not None and kb is not None and bool(ka) != bool(kb):
                    if not ka:
                        polarity = not polarity
                    v = i.ops[0]
                    continue
            if i.op == 'icmp' and i.pred in ('ne', 'eq'):
                c1 = const_of(i.ops[1])
                inner = strip_casts(i.ops[0])
                inner_bool = inner.k == 'i' and inner.inst is not None and (
                    inner.inst.ty == 'i1' or inner.inst.op in ('icmp', 'zext') and
                    _is_boolish(inner) or _bool_select(inner.inst))
                if c1 == 0 and inner_bool:
                    if i.pred == 'eq':
                        polarity = not polarity
                    v = inner
                    continue
        break
    if v.k == 'i' and v.inst is not None and v.inst.op == 'icmp':
        i = v.inst
        pred = i.pred if polarity else NEG[i.pred]
        return [('cmp', pred, terms.term(i.ops[0]), terms.term(i.ops[1]))]
    if v.k == 'i' and v.inst is not None and v.inst.op == 'and' and polarity:
        # (a & b) != 0 for i1 operands means both; for masks keep as a term
        pass
    if v.k == 'i' and v.inst is not None and v.inst.op == 'phi':
        # boolean phi of constants / conditions over branch edges: handled by callers that need it
        pass
    t = terms.term(v)
    return [('cmp', 'ne' if polarity else 'eq', t, ('const', 0))]


def _bool_select(i):
    if i.op != 'select' or len(i.ops) != 3:
        return False
    ka, kb = const_of(i.ops[1]), const_of(i.ops[2])
    return ka is not None and kb is not None and bool(ka) != bool(kb)


def _is_boolish(v):
    v = strip_casts(v)
    if v.k != 'i' or v.inst is None:
        return False
    i = v.inst
    if i.ty == 'i1':
        return True
    if i.op == 'phi':
        return all(const_of(o) in (0, 1) or _is_boolish(o) for o in i.ops)
    return False


def atoms_at(fn, terms, block):
    """All comparison atoms known to hold on entry to `block` (from dominating edges), plus what they imply about boolean flags
    kept in locals (`ok = a && b; if (!ok) error;` -- see flag_provenance)."""
    out = _atoms_at0(fn, terms, block)
    if any(a[0] == 'cmp' and a[1] in ('eq', 'ne') and (a[2][0] == 'phi' or a[3][0] == 'phi') for a in out):
        out = out + flag_provenance(fn, terms, out, (), lambda b: _atoms_at0(fn, terms, b))
    return out


def _atoms_at0(fn, terms, block):
    out = []
    for b, s, lab in guards_at(fn, block):
        k = lab[0]
        if k == 'br':
            out.extend(cond_atoms(terms, lab[1], lab[2]))
        elif k == 'switch':
            out.append(('cmp', 'eq', terms.term(lab[1]), ('const', lab[2])))
        elif k == 'switch-in':
            out.append(('in', terms.term(lab[1]), tuple(lab[2])))
        elif k == 'switch-default':
            out.append(('notin', terms.term(lab[1]), tuple(lab[2])))
    return out


def phi_provenance_atoms(fn, terms, phi, atoms):
    """If `phi != NULL` is among `atoms` and exactly one incoming value of the phi is not the NULL constant, control came through
    that incoming edge: the atoms that dominate it hold as well (loop-free position only)."""
    if phi.op != 'phi' or phi.block.loop is not None:
        return []
    if not has_atom(atoms, 'ne', ('phi', phi.id), ('const', 0)):
        return []
    nz = [(bid, v) for bid, v in phi.incoming if const_of(v) != 0 and v.k != 'null']
    if len(nz) != 1 or len(phi.incoming) < 2:
        return []
    pred = fn.bmap[nz[0][0]]
    if pred.loop is not None:
        return []
    out = list(atoms_at(fn, terms, pred))
    for s2, lab in out_edges(pred):
        if s2 is phi.block and lab is not None and lab[0] == 'br':
            out.extend(cond_atoms(terms, lab[1], lab[2]))
    return out


def norm_atom(a):
    """Put constants on the right."""
    if a[0] == 'cmp' and a[2][0] == 'const' and a[3][0] != 'const':
        return ('cmp', SWAP[a[1]], a[3], a[2])
    return a


def has_atom(atoms, pred, ta, tb):
    """Is (ta pred tb) among the atoms (modulo operand swap)?"""
    for a in atoms:
        if a[0] != 'cmp':
            continue
        if a[1] == pred and a[2] == ta and a[3] == tb:
            return True
        if SWAP[a[1]] == pred and a[3] == ta and a[2] == tb:
            return True
    return False


# ------------------------------------------------------------------ return values
def ret_sources(fn):
    """For every `ret`, the list of (value V, path blocks) that may be returned: phis are expanded.
    Each item is (V, [incoming-block ids chain ...], ret inst)."""
    out = []
    for r in fn.rets():
        if not r.ops:
            out.append((None, (), r))
            continue
        seen = set()

        def walk(v, chain):
            if v.k == 'i' and v.inst is not None and v.inst.op == 'phi':
                if v.inst.id in seen:
                    return
                seen.add(v.inst.id)
                for bid, x in v.inst.incoming:
                    walk(x, chain + ((bid, v.inst.block.id),))
            else:
                out.append((v, chain, r))
        walk(r.ops[0], ())
    return out


def returned_constants(prog, fn, _memo=None, depth=0):
    """Set of constants the function may return, following `return g(...)`; None in the set means
    a non-constant value."""
    if _memo is None:
        _memo = {}
    if fn.name in _memo:
        return _memo[fn.name]
    _memo[fn.name] = set()
    res = set()
    for v, chain, r in ret_sources(fn):
        if v is None:
            continue
        c = const_of(v)
        if c is not None:
            res.add(c)
            continue
        sv = strip_casts(v)
        if sv.k == 'i' and sv.inst is not None and sv.inst.op == 'call' and sv.inst.callee and depth < 6:
            g = prog.callee_fn(sv.inst)
            if g is not None:
                res |= returned_constants(prog, g, _memo, depth + 1)
                continue
        if sv.k == 'undef':
            res.add('undef')
            continue
        res.add(None)
    _memo[fn.name] = res
    return res


def blocks_reaching(fn, targets):
    """Block ids from which some block in `targets` is reachable (inclusive)."""
    tid = set(b.id for b in targets)
    seen = set(tid)
    st = list(targets)
    while st:
        b = st.pop()
        for p in b.preds:
            if p.id not in seen:
                seen.add(p.id)
                st.append(p)
    return seen


# ------------------------------------------------------------------ loops (A7)
class LoopRange(object):
    """Canonical induction: iv = start, start+step, ... while (iv pred bound)."""

    def __init__(self, loop, iv, start, step, pred, bound, bound_v, exit_block, body_succ, cmp_inst, on_next=False):
        self.loop = loop
        self.iv = iv                # phi Inst
        self.start = start          # term
        self.step = step            # int
        self.pred = pred            # predicate under which the loop CONTINUES, written iv pred bound
        self.bound = bound          # term
        self.bound_v = bound_v      # V
        self.exit_block = exit_block
        self.body = body_succ
        self.cmp = cmp_inst
        self.on_next = on_next      # compare is on iv+step (do-while style)

    def describe(self):
        return 'i = %s; i %s %s; i += %d' % (show(self.start), self.pred, show(self.bound), self.step)


def loop_range(fn, loop, terms):
    """Recognise the canonical induction variable of a natural loop whose exit test sits in the header.
    The bound may be re-loaded every iteration (field of a control block); the caller checks invariance
    with loop_invariant_field()."""
    hdr = loop.header
    t = hdr.term()
    if t.op != 'br' or len(t.ops) != 3:
        return None
    succ_t, succ_f = hdr.succs[0], hdr.succs[1]
    in_t, in_f = succ_t.id in loop.blocks, succ_f.id in loop.blocks
    if in_t and in_f:
        # `while (i < n && cond)` at -O0: the header's false edge enters a join block that only holds `phi i1 [false, header], ...`
        # and branches on it; on the edge from the header that branch leaves the loop, so the edge is the loop's exit edge
        def leaves_via_join(s2):
            ph = s2.insts[0] if s2.insts else None
            tb = s2.term()
            if ph is None or ph.op != 'phi' or tb.op != 'br' or len(tb.ops) != 3:
                return False
            cv = strip_casts(tb.ops[0])
            if not (cv.k == 'i' and cv.inst is ph):
                return False
            for bid, v in ph.incoming:
                if bid == hdr.id:
                    k = const_of(v)
                    if k is None:
                        return False
                    tgt = s2.succs[0] if (k & 1) else s2.succs[1]
                    return tgt.id not in loop.blocks
            return False
        if leaves_via_join(succ_f):
            in_f = False
        elif leaves_via_join(succ_t):
            in_t = False
    if in_t == in_f:
        return None
    c = strip_casts(t.ops[0])
    if c.k != 'i' or c.inst.op != 'icmp':
        return None
    cmpi = c.inst
    pred = cmpi.pred if in_t else NEG[cmpi.pred]
    a, b = cmpi.ops[0], cmpi.ops[1]
    for (x, y, p) in ((a, b, pred), (b, a, SWAP[pred])):
        xv = strip_casts(x)
        if xv.k == 'i' and xv.inst.op == 'phi' and xv.inst.block is hdr:
            phi = xv.inst
            start = None
            step = None
            ok = True
            for bid, v in phi.incoming:
                if bid in loop.blocks:
                    sv = strip_casts(v)
                    if sv.k == 'i' and sv.inst.op in ('add', 'sub'):
                        o0, o1 = strip_casts(sv.inst.ops[0]), sv.inst.ops[1]
                        cst = const_of(o1)
                        if o0.k == 'i' and o0.inst is phi and cst is not None:
                            st = cst if sv.inst.op == 'add' else -cst
                            if step is not None and step != st:
                                ok = False
                            step = st
                        else:
                            ok = False
                    else:
                        ok = False
                else:
                    s = terms.term(v)
                    if start is not None and start != s:
                        ok = False
                    start = s
            if ok and step is not None and start is not None:
                return LoopRange(loop, phi, start, step, p, terms.term(y), y, succ_f if in_t else succ_t,
                                 succ_t if in_t else succ_f, cmpi)
    return None


def stores_in_loop(fn, loop):
    for bid in loop.blocks:
        for i in fn.bmap[bid].insts:
            if i.op == 'store':
                yield i


def calls_in_loop(fn, loop):
    for bid in loop.blocks:
        for i in fn.bmap[bid].insts:
            if i.op == 'call':
                yield i


# ------------------------------------------------------------------ R-VERBOSITY helper
PRINT_CALLS = ('printf', 'fprintf', 'fflush', 'puts', 'putchar', 'fputs', 'fputc', 'putc')


def term_mentions_global(t, g):
    if not isinstance(t, tuple):
        return False
    if t[0] in ('global', 'goff') and t[1] == g:
        return True
    return any(term_mentions_global(x, g) for x in t[1:] if isinstance(x, tuple))


def verbosity_regions_pure(fn, gname='of_verbosity', pure_call=None):
    """Every branch on `gname` controls only regions made of print calls (no store, no other call): returns
    (ok, offending instruction or None, number of such branches)."""
    tt = Terms(fn)
    n = 0
    for b in fn.blocks:
        t = b.term()
        if t.op != 'br' or len(t.ops) != 3:
            continue
        if not term_mentions_global(tt.term(t.ops[0]), gname):
            continue
        n += 1
        join = b.ipdom
        stop = [join] if join not in (None, False) else []
        region = set()
        for s in b.succs:
            if join is not None and s is join:
                continue
            region |= fn.reachable(s, stop=stop)
        if join not in (None, False):
            region.discard(join.id)
        for bid in region:
            for i in fn.bmap[bid].insts:
                if i.op in ('load', 'getelementptr', 'br', 'bitcast', 'zext', 'sext', 'trunc', 'icmp', 'phi', 'ptrtoint',
                            'sub', 'add', 'and', 'sdiv', 'udiv', 'mul', 'select', 'fpext', 'sitofp', 'uitofp', 'fdiv', 'fmul'):
                    continue
                if i.op == 'call' and i.callee in PRINT_CALLS:
                    continue
                if i.op == 'call' and pure_call is not None and pure_call(i):
                    continue
                return False, i, n
    return True, None, n


# ------------------------------------------------------------------ guards under assumptions
def _eval_pred(pred, a, b, bits=64):
    if pred == 'eq':
        return a == b
    if pred == 'ne':
        return a != b
    if pred[0] == 'u':
        m = (1 << bits) - 1
        a &= m
        b &= m
    return {'ugt': a > b, 'uge': a >= b, 'ult': a < b, 'ule': a <= b,
            'sgt': a > b, 'sge': a >= b, 'slt': a < b, 'sle': a <= b}[pred]


def contradicted_edges(fn, terms, assume):
    """CFG edges that cannot be taken when every `term == const` in `assume` ({term: int}) holds."""
    removed = []
    for b in fn.blocks:
        for s, lab in out_edges(b):
            if lab is None:
                continue
            k = lab[0]
            if k == 'br':
                for a in cond_atoms(terms, lab[1], lab[2]):
                    a = norm_atom(a)
                    if a[0] == 'cmp' and a[2] in assume and a[3][0] == 'const':
                        if not _eval_pred(a[1], assume[a[2]], a[3][1]):
                            removed.append((b.id, s.id))
            elif k in ('switch', 'switch-in', 'switch-default'):
                t = terms.term(lab[1])
                if t in assume:
                    v = assume[t]
                    ok = (v == lab[2]) if k == 'switch' else (v in lab[2]) if k == 'switch-in' else (v not in lab[2])
                    if not ok:
                        removed.append((b.id, s.id))
    # tests of boolean flags kept in locals (`ok = (m == 4) || (m == 8); if (!ok) error`): the flag's possible values under the
    # assumption follow from its phi -- constants on edges still feasible, comparisons of assumed terms evaluated.  Fixpoint.
    def flag_values(phi, rem, reach, depth=0):
        vals = set()
        for bid, v in phi.incoming:
            if (bid, phi.block.id) in rem or bid not in reach:
                continue
            kv = const_of(v)
            if kv is not None:
                vals.add(1 if kv else 0)
                continue
            tv = norm_atom(terms.term(v))
            if tv[0] == 'cmp' and tv[2] in assume and tv[3][0] == 'const':
                vals.add(1 if _eval_pred(tv[1], assume[tv[2]], tv[3][1]) else 0)
                continue
            sv = strip_casts(v)
            if sv.k == 'i' and sv.inst.op == 'phi' and sv.inst.block.id not in fn.loops and depth < 4:
                sub = flag_values(sv.inst, rem, reach, depth + 1)
                if sub is None:
                    return None
                vals |= sub
                continue
            return None
        return vals
    changed = True
    while changed:
        changed = False
        rem = set(removed)
        reach = fn.reachable(fn.entry, removed=rem)
        for b in fn.blocks:
            if b.id not in reach:
                continue
            for s, lab in out_edges(b):
                if lab is None or lab[0] != 'br' or (b.id, s.id) in rem:
                    continue
                for a in cond_atoms(terms, lab[1], lab[2]):
                    a = norm_atom(a)
                    if a[0] == 'cmp' and a[1] in ('eq', 'ne') and a[2][0] == 'phi' and a[3][0] == 'const':
                        phi = fn.insts.get(a[2][1])
                        if phi is None or phi.op != 'phi' or phi.block.id in fn.loops:
                            continue
                        vals = flag_values(phi, rem, reach)
                        if vals is None:
                            continue
                        c = 1 if a[3][1] else 0
                        if not any((x == c) == (a[1] == 'eq') for x in vals):
                            removed.append((b.id, s.id))
                            rem.add((b.id, s.id))
                            changed = True
    return removed


def _flag_edges(fn, terms, atom, removed, edge_atoms_fn):
    """For an atom (phi pred const) on a loop-free boolean-flag phi: the incoming edges on which it can hold, as
    [(pred block, atoms that hold when control came that way, including (value pred const) for a non-constant incoming value)].
    None if the atom is not of that shape."""
    if atom[0] != 'cmp' or atom[1] not in ('eq', 'ne') or atom[2][0] != 'phi' or atom[3][0] != 'const':
        return None
    phi = fn.insts.get(atom[2][1])
    if phi is None or phi.op != 'phi' or phi.block.loop is not None:
        return None
    c = atom[3][1]
    out = []
    reach = fn.reachable(fn.entry, removed=set(removed))
    for bid, v in phi.incoming:
        if (bid, phi.block.id) in removed or bid not in reach:
            continue
        pb = fn.bmap[bid]
        ea = list(edge_atoms_fn(pb))
        for s2, lab in out_edges(pb):
            if s2 is phi.block and lab is not None and lab[0] == 'br':
                ea.extend(cond_atoms(terms, lab[1], lab[2]))
        kv = const_of(v)
        if kv is not None:
            if (kv == c) == (atom[1] == 'eq'):
                out.append((pb, ea))
            continue
        tv = terms.term(v)
        if has_atom(ea, NEG[atom[1]], tv, ('const', c)):
            continue            # this edge is taken only when the value does NOT satisfy the atom
        more = [('cmp', atom[1], tv, ('const', c))]
        if tv[0] == 'cmp' and c == 0:
            # the incoming value is itself a comparison (`ok = a && b`): (cmp != 0) is the comparison, (cmp == 0) its negation
            more.append(tv if atom[1] == 'ne' else ('cmp', NEG[tv[1]], tv[2], tv[3]))
        out.append((pb, ea + more))
    return out


def phi_atom_impossible(fn, terms, atom, removed, reach, depth=0):
    """(phi pred const) cannot hold on the CFG without the `removed` edges: no incoming edge of the (loop-free) phi that is
    still reachable can deliver such a value.  Used for status / flag variables kept in locals (`st = helper(); if (st != OK)`
    after the helper was expanded in place; `bad = false; ...; if (bad)`)."""
    a = norm_atom(atom)
    if depth > 4 or a[0] != 'cmp' or a[1] not in ('eq', 'ne') or a[2][0] != 'phi' or a[3][0] != 'const':
        return False
    phi = fn.insts.get(a[2][1])
    # a join inside a loop body is fine (its value is set by the edge taken in the current iteration); a loop-header phi is not
    if phi is None or phi.op != 'phi' or phi.block.id in fn.loops:
        return False
    c = a[3][1]
    for bid, v in phi.incoming:
        if (bid, phi.block.id) in removed or bid not in reach:
            continue
        kv = const_of(v)
        if kv is not None:
            if (kv == c) == (a[1] == 'eq'):
                return False
            continue
        tv = terms.term(v)
        pb = fn.bmap[bid]
        ea = list(atoms_at(fn, terms, pb))
        for s2, lab in out_edges(pb):
            if s2 is phi.block and lab is not None and lab[0] == 'br':
                ea.extend(cond_atoms(terms, lab[1], lab[2]))
        if has_atom(ea, NEG[a[1]], tv, ('const', c)):
            continue
        if phi_atom_impossible(fn, terms, ('cmp', a[1], tv, ('const', c)), removed, reach, depth + 1):
            continue
        return False
    return True


def flag_provenance(fn, terms, atoms, removed, edge_atoms_fn, depth=0):
    """Facts implied by atoms about boolean flags kept in locals (`bad = false; if (..) bad = true; ... if (bad) error`): when
    exactly one incoming edge of the flag's phi is compatible with the atom, the conditions of that edge hold as well."""
    extra = []
    work = list(atoms)
    seen = set()
    n = 0
    while work and n < 40:
        a = norm_atom(work.pop())
        n += 1
        if a in seen:
            continue
        seen.add(a)
        es = _flag_edges(fn, terms, a, removed, edge_atoms_fn)
        if es is not None and len(es) == 1:
            for x in es[0][1]:
                x = norm_atom(x)
                if x not in seen:
                    extra.append(x)
                    work.append(x)
    return extra


def atoms_at_restricted(fn, terms, block, removed):
    out = _atoms_at_restricted0(fn, terms, block, removed)
    if out is None:
        return None
    return out + flag_provenance(fn, terms, out, removed, lambda b: _atoms_at_restricted0(fn, terms, b, removed) or [])


def _atoms_at_restricted0(fn, terms, block, removed):
    """Like atoms_at, on the CFG with `removed` edges deleted (paths that contradict an assumption)."""
    rem = set(removed)
    base = fn.reachable(fn.entry, removed=rem)
    if block.id not in base:
        return None            # block unreachable under the assumption
    out = []
    for b in fn.blocks:
        if b.id not in base:
            continue
        es = out_edges(b)
        if len(es) < 2:
            continue
        for s, lab in es:
            if lab is None or (b.id, s.id) in rem:
                continue
            r = fn.reachable(fn.entry, removed=rem | set([(b.id, s.id)]))
            if block.id not in r:
                k = lab[0]
                if k == 'br':
                    out.extend(cond_atoms(terms, lab[1], lab[2]))
                elif k == 'switch':
                    out.append(('cmp', 'eq', terms.term(lab[1]), ('const', lab[2])))
    return out
