"""R-PARAM: accepted by of_set_fec_parameters => inside the advertised limits (the rejection direction of C09).

For each codec the guards that hold on every path to an OK return are collected over the chain
of_set_fec_parameters (restricted to codec id c) -> of_<codec>_set_fec_parameters -> matrix constructor
(non-NULL result), as comparison atoms over the application's parameter block; the property's own list of
limits is then derived from them by interval reasoning.  Nothing is executed; no limit is hard-coded except
the property's (m in {4,8}, N1 >= 3, seed in 1..2^31-2) -- k and n limits are whatever the fields reported by
OF_CTRL_GET_MAX_K / OF_CTRL_GET_MAX_N hold.
"""
from .ir import Terms, strip_casts, const_of, atoms_at, has_atom, show, ret_sources, contradicted_edges, \
    atoms_at_restricted, norm_atom, SWAP, NEG
from .rules_prng import interval_from_atoms
from .rules_decode import fld, L, subst_params, OK
from .effects import addr_root

CODECS = {
    1: dict(name='RS-2^8', fn='of_rs_set_fec_parameters', struct='of_rs_cb', pstruct='of_rs_parameters',
            create='of_rs_create_codec_instance', get='of_rs_get_control_parameter'),
    2: dict(name='RS-2^m', fn='of_rs_2_m_set_fec_parameters', struct='of_rs_2_m_cb', pstruct='of_rs_2_m_parameters',
            create='of_rs_2_m_create_codec_instance', get='of_rs_2_m_get_control_parameter'),
    3: dict(name='LDPC-Staircase', fn='of_ldpc_staircase_set_fec_parameters', struct='of_ldpc_staircase_cb',
            pstruct='of_ldpc_parameters', create='of_ldpc_staircase_create_codec_instance',
            get='of_ldpc_staircase_get_control_parameter'),
}


def P(prog, pstruct, name):
    return L(fld(prog, pstruct, name, ('param', 1)))


def _atomset(atoms):
    return set(norm_atom(a) for a in atoms if a[0] == 'cmp')


def ok_atoms(ctx, prog, c, R):
    """Atoms (over params / session fields as seen by the dispatcher) that hold whenever of_set_fec_parameters returns OK
    for a session of codec c."""
    info = CODECS[c]
    f0 = prog.need_fn('of_set_fec_parameters', R)
    t0 = Terms(f0)
    cid = L(('field', ('param', 0), 'codec_id', 0))
    removed = contradicted_edges(f0, t0, {cid: c})
    calls = [x for x in f0.calls(info['fn'])]
    ctx.need(len(calls) == 1, R, 'of_set_fec_parameters does not call %s exactly once' % info['fn'])
    call = calls[0]
    a0 = atoms_at_restricted(f0, t0, call.block, removed)
    ctx.need(a0 is not None, R, 'call of %s unreachable for codec id %d' % (info['fn'], c))
    ctx.need(t0.term(call.args[0]) == ('param', 0) and t0.term(call.args[1]) == ('param', 1), R,
             '%s is not called with (ses, params)' % info['fn'])
    # the dispatcher returns the callee's status unchanged on that path
    atoms = _atomset(a0)
    f1 = prog.need_fn(info['fn'], R)
    t1 = Terms(f1, forward=True)
    oks = [(v, chain, r) for v, chain, r in ret_sources(f1) if v is not None and const_of(v) == OK]
    ctx.need(oks, R, '%s has no OK return' % info['fn'])
    inter = None
    for v, chain, r in oks:
        src = f1.bmap[chain[0][0]] if chain else r.block
        s = _atomset(atoms_at(f1, t1, src))
        inter = s if inter is None else (inter & s)
    atoms |= inter
    # expand "callee(...) != NULL" through the callee's non-NULL returns
    extra = set()
    for a in list(atoms):
        if a[1] == 'ne' and a[3] == ('const', 0) and a[2][0] == 'call':
            g = prog.fn(a[2][1], f1.unit)
            cinst = f1.insts.get(a[2][2])
            if g is None or cinst is None or not g.ret.endswith('*'):
                continue
            args = [t1.term(x) for x in cinst.args]
            extra |= _callee_nonnull_atoms(prog, g, args)
    atoms |= extra
    return atoms, f1, t1


def _callee_nonnull_atoms(prog, g, args, depth=0):
    gt = Terms(g, forward=True)
    inter = None
    for v, chain, r in ret_sources(g):
        if v is None or (const_of(v) == 0):
            continue
        src = g.bmap[chain[0][0]] if chain else r.block
        s = _atomset(atoms_at(g, gt, src))
        # "return h(...)": add h's conditions
        sv = strip_casts(v)
        if sv.k == 'i' and sv.inst.op == 'call' and sv.inst.callee and depth < 3:
            h = prog.callee_fn(sv.inst)
            if h is not None and h.ret.endswith('*'):
                s |= _callee_nonnull_atoms(prog, h, [gt.term(x) for x in sv.inst.args], depth + 1)
        inter = s if inter is None else (inter & s)
    if inter is None:
        return set()
    return set(norm_atom(('cmp', a[1], subst_params(a[2], args), subst_params(a[3], args))) for a in inter)


def _bounds(atoms, term):
    """(lo, hi) from atoms comparing `term` (possibly through zext/trunc) with constants; signed and unsigned alike for
    the small positive ranges at stake."""
    lo, hi = interval_from_atoms(list(atoms), term, 0, (1 << 64) - 1)
    return lo, hi


def _le_atom(atoms, a, b):
    """a <= b known (unsigned)?"""
    for x in atoms:
        if x[2] == a and x[3] == b and x[1] in ('ule', 'ult', 'eq', 'sle', 'slt'):
            return True
        if x[2] == b and x[3] == a and x[1] in ('uge', 'ugt', 'eq', 'sge', 'sgt'):
            return True
    return False


def _creator_const(prog, info, field):
    """The constant(s) stored into `field` in the program (creator and anything else)."""
    vals = set()
    where = []
    for f in prog.all_functions:
        if not f.params or not f.params[0]['ty'].startswith('%struct.' + info['struct'] + '*'):
            continue
        tt = Terms(f)
        for i in f.all_insts():
            if i.op == 'store' and addr_root(tt.term(i.ops[1])) == ('field', field):
                vals.add(const_of(i.ops[0]))
                where.append(f.name)
    return vals, where


def r_param(ctx, prog, codecs=(1, 2, 3), only=None):
    R = 'R-PARAM'
    real_ctx = ctx
    if only is not None:
        ctx = _Filter(real_ctx, only)
    ctx.rule(R, 'whenever of_set_fec_parameters returns OK the dominating guards imply 1 <= k <= MAX_K, n-k >= 1, k + (n-k) <= MAX_N '
             'without wrap-around, symbol length >= 1, and per codec m in {4,8}, 3 <= N1 <= n-k, seed in 1..2^31-2 (MAX_K/MAX_N being '
             'the fields OF_CTRL_GET_MAX_K/N report)', floor=1)
    out = {}
    for c in codecs:
        info = CODECS[c]
        atoms, f1, t1 = ok_atoms(ctx, prog, c, R)
        ps = info['pstruct']
        k, r, ln = P(prog, ps, 'nb_source_symbols'), P(prog, ps, 'nb_repair_symbols'), P(prog, ps, 'encoding_symbol_length')
        where = f1
        name = info['name']
        pre = 'codec%d:' % c
        out[c] = sorted('%s %s %s' % (show(a[2]), a[1], show(a[3])) for a in atoms)
        lo, hi = _bounds(atoms, k)
        ctx.instance(R, lo >= 1, where, pre + 'k>=1', '%s accepts nb_source_symbols = 0 (no guard on the OK path implies k >= 1)' % name)
        lo, hi = _bounds(atoms, r)
        ctx.instance(R, lo >= 1, where, pre + 'r>=1', '%s accepts nb_repair_symbols = 0' % name)
        lo, hi = _bounds(atoms, ln)
        ctx.instance(R, lo >= 1, where, pre + 'len>=1', '%s accepts encoding_symbol_length = 0' % name)
        # MAX_K / MAX_N are the fields the control call reports
        g = prog.need_fn(info['get'], R)
        gt = Terms(g)
        reported = {}
        for i in g.all_insts():
            if i.op == 'store' and gt.term(i.ops[1])[0] in ('param',) or (i.op == 'store' and gt.term(i.ops[1]) == ('param', 2)):
                v = gt.term(i.ops[0])
                if v[0] == 'load' and v[1][0] == 'field':
                    atoms_here = atoms_at(g, gt, i.block)
                    for a in atoms_here:
                        if a[0] == 'cmp' and a[1] == 'eq' and a[2] == ('param', 1) and a[3][0] == 'const':
                            reported[a[3][1]] = v[1][2]
        ctx.need(1 in reported and 2 in reported, R, '%s: cannot find the fields reported for OF_CTRL_GET_MAX_K / _N' % info['get'])
        maxk_f, maxn_f = reported[1], reported[2]
        # value of the max fields at the OK return (forwarded if set_fec_parameters itself assigns them)
        maxk = _field_value(prog, f1, t1, info['struct'], maxk_f)
        maxn = _field_value(prog, f1, t1, info['struct'], maxn_f)
        ctx.instance(R, _le_atom(atoms, k, maxk), where, pre + 'k<=MAX_K',
                     '%s: no guard on the OK path implies nb_source_symbols <= %s (the value OF_CTRL_GET_MAX_K reports)' % (name, maxk_f))
        ksum = ('bin', 'add', k, r)
        ksum2 = ('bin', 'add', r, k)
        sum_ok = _le_atom(atoms, ksum, maxn) or _le_atom(atoms, ksum2, maxn)
        r_ok = _le_atom(atoms, r, maxn)
        # no wrap: k <= maxk and r <= maxn with maxk + maxn < 2^32, the max fields being compile-time constants set by the creator
        ck, _ = _creator_const(prog, info, maxk_f)
        cn, _ = _creator_const(prog, info, maxn_f)
        nowrap = r_ok and _le_atom(atoms, k, maxk) and ck and cn and None not in ck and None not in cn and \
            max(ck) + max(cn) < (1 << 32)
        why = []
        if not sum_ok:
            why.append('no guard k + r <= %s' % maxn_f)
        if not r_ok:
            why.append('no guard r <= %s (a huge r wraps k + r around)' % maxn_f)
        if sum_ok and r_ok and not nowrap:
            why.append('the limits are not constants set once by the creator, wrap-around not excluded')
        ctx.instance(R, sum_ok and nowrap, where, pre + 'n<=MAX_N',
                     '%s accepts nb_source_symbols + nb_repair_symbols above %s (the value OF_CTRL_GET_MAX_N reports): %s' %
                     (name, maxn_f, '; '.join(why)))
        if c == 2:
            m = P(prog, ps, 'm')
            bad = _m_values_accepted(ctx, prog, info, R)
            ctx.instance(R, not bad, where, pre + 'm', '%s accepts m = %s (only 4 and 8 are valid)' % (name, bad))
        if c == 3:
            n1 = P(prog, ps, 'N1')
            seed = P(prog, ps, 'prng_seed')
            lo, hi = _bounds(atoms, n1)
            ctx.instance(R, lo >= 3, where, pre + 'N1>=3', '%s accepts N1 below 3 (lower bound found: %d)' % (name, lo))
            ctx.instance(R, _le_atom(atoms, n1, r), where, pre + 'N1<=r', '%s: no guard implies N1 <= nb_repair_symbols' % name)
            lo, hi = _bounds(atoms, seed)
            ctx.instance(R, (lo, hi) == (1, 0x7FFFFFFE), where, pre + 'seed',
                         '%s accepts PRNG seeds in [%d, %d]; RFC 5170 seeds are 1..2147483646 (others are silently ignored by '
                         'of_rfc5170_srand, so the matrix depends on earlier sessions)' % (name, lo, min(hi, 1 << 32)))
    return out


class _Filter(object):
    """forwards only the instances whose key ends with one of the selected clauses"""

    def __init__(self, ctx, only):
        self._c = ctx
        self._only = only

    def instance(self, rule, ok, where, key, msg=None):
        if any(key.endswith(o) for o in self._only):
            self._c.instance(rule, ok, where, key, msg)

    def __getattr__(self, n):
        return getattr(self._c, n)


def _field_value(prog, f, tt, struct, field):
    """Term of session field `field` at the end of f: the forwarded stored value if f assigns it, else the load."""
    addr = fld(prog, struct, field)
    sts = tt.stores_by_addr().get(addr, [])
    if sts:
        last = sts[0]
        for s in sts[1:]:
            if f.dominates(last, s):
                last = s
        return tt.term(last.ops[0])
    return L(addr)


def _m_values_accepted(ctx, prog, info, R):
    """Region enumeration: m is only ever compared with constants, so the constants it is compared with (and their
    neighbours, 0 and the type maximum) represent every ordering; returns the representatives other than 4 and 8 for which
    an OK return stays reachable."""
    f = prog.need_fn(info['fn'], R)
    tt = Terms(f, forward=True)
    m = P(prog, info['pstruct'], 'm')
    consts = set([0, 65535, 4, 8])
    from .ir import out_edges, cond_atoms
    for b in f.blocks:
        for s, lab in out_edges(b):
            if lab and lab[0] == 'br':
                for a in cond_atoms(tt, lab[1], lab[2]):
                    a = norm_atom(a)
                    if a[0] == 'cmp' and a[2] == m and a[3][0] == 'const':
                        consts.add(a[3][1])
    reps = set()
    for c in consts:
        for d in (-1, 0, 1):
            if 0 <= c + d <= 65535:
                reps.add(c + d)
    bad = []
    for v in sorted(reps):
        if v in (4, 8):
            continue
        removed = contradicted_edges(f, tt, {m: v})
        reach = f.reachable(f.entry, removed=removed)
        for val, chain, r in ret_sources(f):
            if val is not None and const_of(val) == OK:
                src = f.bmap[chain[0][0]] if chain else r.block
                if src.id in reach:
                    bad.append(v)
                    break
    # and the good values must remain acceptable
    return bad


# ------------------------------------------------------------------ R-ACCEPT: inside the limits => OK (absent allocation failure)
def r_accept(ctx, prog, codecs=(1, 2, 3)):
    """Converse of R-PARAM.  Assume the advertised limits K; every CFG edge of the dispatcher (restricted to the codec id) and of
    the codec's set_fec_parameters from which only error statuses can be returned must be an allocation-failure edge, the failure
    edge of a callee that can only fail on allocation failure or under conditions K refutes, or be refuted by K itself."""
    from .ir import out_edges, cond_atoms, NEG, has_atom
    from .rules_own import atom_refuted
    from .rules_decode import edge_is_error, nonerror_returns
    R = 'R-ACCEPT'
    ctx.rule(R, 'with parameters inside the advertised limits no rejection edge of of_set_fec_parameters / the codec routine / the matrix '
             'constructor can be taken: each is refuted by the limits, or is an allocation-failure edge', floor=1)
    for c in codecs:
        info = CODECS[c]
        ps = info['pstruct']
        k, r, ln = P(prog, ps, 'nb_source_symbols'), P(prog, ps, 'nb_repair_symbols'), P(prog, ps, 'encoding_symbol_length')
        f1 = prog.need_fn(info['fn'], R)
        t1 = Terms(f1, forward=True)
        maxk = _field_value(prog, f1, t1, info['struct'], 'max_nb_source_symbols')
        maxn = _field_value(prog, f1, t1, info['struct'], 'max_nb_encoding_symbols')
        K = set([('cmp', 'uge', k, ('const', 1)), ('cmp', 'ugt', k, ('const', 0)), ('cmp', 'ule', k, maxk),
                 ('cmp', 'uge', r, ('const', 1)), ('cmp', 'ugt', r, ('const', 0)),
                 ('cmp', 'ule', ('bin', 'add', k, r), maxn), ('cmp', 'ule', ('bin', 'add', r, k), maxn), ('cmp', 'ule', r, maxn),
                 ('cmp', 'uge', ln, ('const', 1)), ('cmp', 'ugt', ln, ('const', 0))])
        assumes = [{}]
        if c == 2:
            m = P(prog, ps, 'm')
            assumes = [{m: 4}, {m: 8}]
        if c == 3:
            n1, seed = P(prog, ps, 'N1'), P(prog, ps, 'prng_seed')
            K |= set([('cmp', 'sge', n1, ('const', 3)), ('cmp', 'uge', n1, ('const', 3)), ('cmp', 'ule', n1, r),
                      ('cmp', 'sge', seed, ('const', 1)), ('cmp', 'sle', seed, ('const', 0x7FFFFFFE)),
                      ('cmp', 'uge', seed, ('const', 1)), ('cmp', 'ule', seed, ('const', 0x7FFFFFFE))])
        f0 = prog.need_fn('of_set_fec_parameters', R)
        t0 = Terms(f0)
        cid = L(('field', ('param', 0), 'codec_id', 0))
        for asm in assumes:
            tag = 'codec%d%s' % (c, ''.join(':m=%d' % v for v in asm.values()))
            bad = _reject_edges(prog, f0, t0, dict({cid: c}), K, ses_nonnull=True)
            bad += _reject_edges(prog, f1, t1, dict(asm), K)
            ctx.instance(R, not bad, bad[0][0] if bad else f1, tag + ':no-rejection',
                         '%s: with parameters inside the advertised limits the rejection at %s (%s) can still be taken' %
                         (info['name'], bad[0][0].loc() if bad else '', bad[0][1] if bad else ''))


def _refuted(a, Kb):
    from .ir import NEG, has_atom
    from .rules_own import atom_refuted
    a = norm_atom(a)
    if a[0] != 'cmp':
        return False
    if has_atom(Kb, NEG[a[1]], a[2], a[3]):
        return True
    if atom_refuted(a, Kb):
        return True
    # x > c with x <= c' <= c known, x == 0 with x >= 1 known, pointer == NULL for a parameter assumed valid
    lo, hi = interval_from_atoms(list(Kb), a[2], 0, (1 << 64) - 1) if a[3][0] == 'const' else (0, (1 << 64) - 1)
    if a[3][0] == 'const':
        cst = a[3][1]
        if a[1] in ('ugt', 'sgt') and hi <= cst:
            return True
        if a[1] in ('uge', 'sge') and hi < cst:
            return True
        if a[1] in ('ult', 'slt') and lo >= cst:
            return True
        if a[1] in ('ule', 'sle') and lo > cst:
            return True
        if a[1] == 'eq' and (cst < lo or cst > hi):
            return True
    return False


def _infeasible_edges(f, tt, assume, K, ses_nonnull=False):
    """CFG edges that cannot be taken under the assumptions: contradicted by the constants assumed, refuted by K together with
    what dominates them, or conditioned on a boolean flag (kept in a local) that cannot have the tested value because every
    edge that would give it that value is itself infeasible.  Fixpoint."""
    from .ir import out_edges, cond_atoms, NEG
    removed = set(contradicted_edges(f, tt, assume)) if assume else set()
    base = set([('cmp', 'ne', ('param', 0), ('const', 0)), ('cmp', 'ne', ('param', 1), ('const', 0))]) if ses_nonnull else set()

    def impossible(atom, reach, depth=0):
        """(phi pred c) cannot hold: no incoming edge of the phi can deliver such a value"""
        a = norm_atom(atom)
        if depth > 4 or a[0] != 'cmp' or a[1] not in ('eq', 'ne') or a[2][0] != 'phi' or a[3][0] != 'const':
            return False
        phi = f.insts.get(a[2][1])
        if phi is None or phi.op != 'phi' or phi.block.loop is not None:
            return False
        c = a[3][1]
        for bid, v in phi.incoming:
            if (bid, phi.block.id) in removed or bid not in reach:
                continue
            kv = const_of(v)
            if kv is not None:
                if (kv == c) == (a[1] == 'eq'):
                    return False
                continue
            tv = tt.term(v)
            pb = f.bmap[bid]
            ea = list(atoms_at(f, tt, pb))
            for s2, lab in out_edges(pb):
                if s2 is phi.block and lab is not None and lab[0] == 'br':
                    ea.extend(cond_atoms(tt, lab[1], lab[2]))
            if has_atom(ea, NEG[a[1]], tv, ('const', c)):
                continue
            if impossible(('cmp', a[1], tv, ('const', c)), reach, depth + 1):
                continue
            if tv[0] == 'cmp' and c == 0:
                # the incoming value is itself a comparison (`ok = a && b`): it must be true (ne) / false (eq) on this edge
                need = tv if a[1] == 'ne' else ('cmp', NEG[tv[1]], tv[2], tv[3])
                Kb2 = set(K) | base | set(norm_atom(x) for x in ea if x[0] == 'cmp')
                if _refuted(need, Kb2):
                    continue
            return False
        return True
    changed = True
    while changed:
        changed = False
        reach = f.reachable(f.entry, removed=removed)
        for b in f.blocks:
            if b.id not in reach:
                continue
            for s2, lab in out_edges(b):
                if lab is None or lab[0] != 'br' or (b.id, s2.id) in removed:
                    continue
                atoms = cond_atoms(tt, lab[1], lab[2])
                Kb = set(K) | base | set(norm_atom(x) for x in atoms_at(f, tt, b) if x[0] == 'cmp')
                if any(_refuted(a, Kb) or impossible(a, reach) for a in atoms):
                    removed.add((b.id, s2.id))
                    changed = True
    return removed


def _reject_edges(prog, f, tt, assume, K, ses_nonnull=False):
    """error-only edges of f that are neither infeasible under K nor allocation-failure edges"""
    from .ir import out_edges, cond_atoms
    from .rules_decode import edge_is_error, nonerror_returns, subst_params
    removed = _infeasible_edges(f, tt, assume, K, ses_nonnull)
    reach = f.reachable(f.entry, removed=removed)
    # error edges (allocation failure, also when it is reported through the status of a helper expanded in place) are exempt
    from .rules_decode import error_free_reach
    err_edges = set(error_free_reach(prog, f)[1])
    out = []
    for b in f.blocks:
        if b.id not in reach:
            continue
        for s2, lab in out_edges(b):
            if lab is None or (b.id, s2.id) in removed or (b.id, s2.id) in err_edges:
                continue
            if not _only_nonok(f, s2, b) or _only_nonok(f, b, None):
                continue
            # an edge entering the rejection region
            if lab[0] != 'br':
                if lab[0] in ('switch-default',):
                    out.append((b.term(), 'unknown codec / request'))
                continue
            atoms = cond_atoms(tt, lab[1], lab[2])
            Kb = set(K) | set(norm_atom(x) for x in atoms_at(f, tt, b) if x[0] == 'cmp')
            if ses_nonnull:
                Kb |= set([('cmp', 'ne', ('param', 0), ('const', 0)), ('cmp', 'ne', ('param', 1), ('const', 0))])
            if _callee_failure_ok(prog, f, tt, atoms, Kb):
                continue
            out.append((b.term(), ' and '.join('%s %s %s' % (show(a[2])[:40], a[1], show(a[3])[:30]) for a in atoms)))
    return out


def _only_nonok(f, start, frm):
    """every return reachable from block `start` (entered from `frm`) returns a constant non-OK status"""
    reach = f.reachable(start)
    got = False
    for v, chain, r in ret_sources(f):
        src = f.bmap[chain[0][0]] if chain else r.block
        if src.id in reach:
            got = True
            if v is None or const_of(v) in (None, OK):
                return False
    return got


def _status_ok_under(prog, g, args, Kb, depth):
    """every return of g that is not behind an error edge (allocation failure, failure of a callee) yields OK, is refuted by Kb
    (translated through the call arguments), or is the status of a callee for which the same holds"""
    from .rules_decode import nonerror_returns, subst_params
    if depth > 3:
        return False
    gt = Terms(g, forward=True)
    asm = dict((('param', j), args[j][1]) for j in range(len(args)) if args[j][0] == 'const')
    rem = set(contradicted_edges(g, gt, asm)) if asm else set()
    reach = g.reachable(g.entry, removed=rem)
    for v, src, r in nonerror_returns(prog, g):
        if src.id not in reach:
            continue
        c = const_of(v)
        if c == OK:
            continue
        ga = [('cmp', y[1], subst_params(y[2], args), subst_params(y[3], args)) for y in atoms_at(g, gt, src) if y[0] == 'cmp']
        if any(_refuted(y, Kb) for y in ga):
            continue
        if c is None:
            t = gt.term(v)
            if t[0] == 'call':
                h = prog.fn(t[1], g.unit)
                call = g.insts.get(t[2])
                if h is not None and call is not None:
                    hargs = [subst_params(gt.term(z), args) for z in call.args]
                    if _status_ok_under(prog, h, hargs, Kb, depth + 1):
                        continue
        return False
    return True


def _callee_failure_ok(prog, f, tt, atoms, Kb):
    """the edge says "allocation returned NULL" or "callee g failed": acceptable when g fails only on allocation failure or under
    conditions refuted by K (translated through the call's arguments)"""
    from .rules_decode import ALLOC_NAMES, nonerror_returns, subst_params, _alloc_like
    for a in atoms:
        if a[0] != 'cmp' or a[3] != ('const', 0):
            continue
        x = a[2]
        if a[1] == 'eq' and _alloc_like(tt, f, x):
            return True
        if a[1] == 'eq' and x[0] in ('load', 'load@'):
            st = tt.stores_by_addr().get(x[1], [])
            if st and all(_alloc_like(tt, f, tt.term(s.ops[0])) for s in st):
                return True
        if x[0] == 'call':
            g = prog.fn(x[1], f.unit)
            call = f.insts.get(x[2])
            if g is None or call is None:
                continue
            args = [tt.term(z) for z in call.args]
            gt = Terms(g, forward=True)
            if a[1] == 'ne' and g.ret == 'i32':
                if _status_ok_under(prog, g, args, Kb, 0):
                    return True
            if a[1] == 'eq' and g.ret.endswith('*'):
                okall = True
                for v, chain, r in ret_sources(g):
                    if v is None or const_of(v) != 0:
                        continue
                    src = g.bmap[chain[0][0]] if chain else r.block
                    ga = [('cmp', y[1], subst_params(y[2], args), subst_params(y[3], args)) for y in atoms_at(g, gt, src) if y[0] == 'cmp']
                    if not any(_refuted(y, Kb) for y in ga):
                        okall = False
                if okall:
                    return True
    return False
