"""Effect summaries (A5): which struct fields / table elements / globals a function may write, directly or
through callees; which external functions it reaches.  Field granularity is the member *name* (all structs
sharing a member name are merged), which is coarse but conservative for "nothing in this region writes X"."""
from .ir import Terms, strip_casts, const_of

LIBC_WRITERS = {'memcpy': 0, 'memset': 0, 'memmove': 0, 'bcopy': 1, 'bzero': 0, 'strcpy': 0, 'strncpy': 0,
                'sprintf': 0, 'snprintf': 0, 'fread': 0, 'fgets': 0, 'fscanf': None, 'sscanf': None}
PURE_EXTERNAL = set(['fprintf', 'printf', 'fflush', 'puts', 'putchar', 'fputs', 'fputc', 'abort', 'exit', 'strlen',
                     'sqrt', 'floor', 'ceil', 'rand', 'srand', 'gettimeofday', 'fwrite', 'perror', 'putc', 'fopen', 'fclose',
                     'llvm.dbg.value', 'llvm.dbg.declare', 'llvm.lifetime.start.p0i8', 'llvm.lifetime.end.p0i8', 'fabs',
                     'llvm.fabs.f64', 'llvm.floor.f64', 'llvm.sqrt.f64', 'llvm.ceil.f64', 'llvm.floor.f32', 'llvm.sqrt.f32',
                     'getc', 'feof', 'fputs', 'sqrtf', 'floorf', 'llvm.fmuladd.f64', 'llvm.stacksave', 'llvm.stackrestore'])
ALLOCATORS = set(['malloc', 'calloc', 'realloc', 'of_malloc', 'of_calloc', 'of_realloc', 'of_my_malloc'])
DEALLOCATORS = set(['free', 'of_free'])


def addr_root(t):
    """Classify an address term: returns (kind, detail):
    ('field', name) store to a struct member;  ('elems', name) store to an element of the array a member points to;
    ('global', g);  ('local', id) alloca;  ('param', i) store through a pointer parameter (or elements of it);
    ('deep', name) store through a pointer loaded from elements of member `name` (a buffer hanging off a table);
    ('unknown', None)."""
    if t[0] == 'field':
        return ('field', t[2])
    if t[0] in ('global', 'goff'):
        return ('global', t[1])
    if t[0] == 'alloca':
        return ('local', t[1])
    if t[0] == 'param':
        return ('param', t[1])
    if t[0] == 'elem':
        b = t[1]
        if b[0] in ('load', 'load@'):
            a = b[1]
            if a[0] == 'field':
                return ('elems', a[2])
            if a[0] == 'elem':
                r = addr_root(a)
                if r[0] == 'elems':
                    return ('deep', r[1])
                return r if r[0] != 'param' else ('pparam', r[1])
            if a[0] in ('global', 'goff'):
                return ('global', a[1])
            if a[0] == 'alloca':
                return ('viaLocal', a[1])
            return ('unknown', None)
        return addr_root(b)
    if t[0] in ('load', 'load@'):
        a = t[1]
        if a[0] == 'field':
            return ('pointee', a[2])
        if a[0] == 'elem':
            r = addr_root(a)
            if r[0] == 'elems':
                return ('deep', r[1])
            if r[0] == 'param':
                return ('pparam', r[1])
            return ('unknown', None)
        if a[0] == 'alloca':
            return ('viaLocal', a[1])
        return ('unknown', None)
    if t[0] == 'call':
        return ('fresh', t[1])
    if t[0] == 'phi':
        return ('unknown', None)
    return ('unknown', None)


class Effects(object):
    def __init__(self, prog):
        self.prog = prog
        self.direct = {}
        for f in prog.all_functions:
            self.direct[self._key(f)] = self._direct(f)
        self.total = {}
        self._close()

    def _key(self, f):
        return (f.unit.name, f.name) if f.internal else f.name

    def _direct(self, f):
        tt = Terms(f)
        w = set()          # ('field', name) ('elems', name) ('global', g) ('pointee', name) ('deep', name) ('param', i) ...
        r_globals = set()
        callees = set()
        ext = set()
        indirect = 0
        for i in f.all_insts():
            if i.op == 'store':
                w.add(addr_root(tt.term(i.ops[1])))
            elif i.op == 'load':
                a = tt.term(i.ops[0])
                if a[0] in ('global', 'goff'):
                    r_globals.add(a[1])
            elif i.op == 'call':
                if i.callee is None:
                    indirect += 1
                    continue
                g = self.prog.callee_fn(i)
                if g is not None:
                    callees.add(self._key(g))
                    continue
                ext.add(i.callee)
                if i.callee in LIBC_WRITERS:
                    idx = LIBC_WRITERS[i.callee]
                    if idx is not None and idx < len(i.args):
                        t = tt.term(i.args[idx])
                        root = addr_root(('elem', t, ('const', 0))) if t[0] in ('load', 'load@') else addr_root(t)
                        # memset(cb, ...) on the object itself: every field
                        if t[0] == 'param' or (t[0] == 'call'):
                            w.add(('object', t[1] if t[0] == 'param' else t[1]))
                        w.add(root)
        return {'w': w, 'rg': r_globals, 'callees': callees, 'ext': ext, 'indirect': indirect}

    def _close(self):
        tot = dict((k, {'w': set(v['w']), 'rg': set(v['rg']), 'ext': set(v['ext']), 'indirect': v['indirect'],
                        'callees': set(v['callees'])}) for k, v in self.direct.items())
        changed = True
        while changed:
            changed = False
            for k, v in tot.items():
                for c in list(v['callees']):
                    cv = tot.get(c)
                    if cv is None:
                        continue
                    for key in ('w', 'rg', 'ext', 'callees'):
                        # param-rooted writes of a callee are not translated to the caller's params (conservative: 'anyparam')
                        add = cv[key]
                        if key == 'w':
                            add = set(('calleeparam', None) if x[0] in ('param', 'pparam') else x for x in add
                                      if x[0] not in ('local', 'viaLocal'))
                        n0 = len(v[key])
                        v[key] |= add
                        if len(v[key]) != n0:
                            changed = True
                    if cv['indirect'] and not v['indirect']:
                        v['indirect'] = cv['indirect']
                        changed = True
        self.total = tot

    def of(self, f):
        return self.total[self._key(f)]

    def may_write_field(self, f, name):
        w = self.of(f)['w']
        # a libc writer whose destination is the object itself (memset(cb, ...)): every member; a destination that is a fresh
        # malloc/calloc block cannot be the session object (only a realloc of it can)
        return ('field', name) in w or any(x[0] == 'object' and (not isinstance(x[1], str) or 'realloc' in x[1]) for x in w)

    def may_write_elems(self, f, name):
        return ('elems', name) in self.of(f)['w']

    def may_write_global(self, f, g):
        return ('global', g) in self.of(f)['w']

    def region_may_write_field(self, fn, blocks, name):
        """Any instruction in the given blocks (ids) of fn that may store to member `name` (directly or in a callee)."""
        tt = Terms(fn)
        for bid in blocks:
            for i in fn.bmap[bid].insts:
                if i.op == 'store' and addr_root(tt.term(i.ops[1])) == ('field', name):
                    return i
                if i.op == 'call' and i.callee:
                    g = self.prog.callee_fn(i)
                    if g is not None and self.may_write_field(g, name):
                        return i
        return None


_cache = {}


def effects(prog):
    e = _cache.get(id(prog))
    if e is None:
        e = Effects(prog)
        _cache[id(prog)] = e
    return e
