"""Matrix-utility rules: R-IDX-GUARD, R-DLINK, R-WORDGEOM, R-BITLOOP, R-PAIRSWAP."""
from .ir import Terms, strip_casts, const_of, atoms_at, has_atom, show, ret_sources, loop_range, norm_atom
from .effects import addr_root, ALLOCATORS
from .rules_decode import is_field_load, L, _V


# ------------------------------------------------------------------ R-IDX-GUARD
def extent_registry(prog):
    """member array -> member holding its allocated element count, discovered from the allocation sites:
    `obj->F = alloc(count...)` where count is (a load of / the value stored into) obj->G in the same function.
    Members with two allocation sites of different extent are left out."""
    reg = {}
    conflict = set()
    for f in prog.all_functions:
        tt = Terms(f)
        stored = {}
        for i in f.all_insts():
            if i.op == 'store':
                a = tt.term(i.ops[1])
                if a[0] == 'field':
                    stored.setdefault((a[1], a[2]), []).append(tt.term(i.ops[0]))
        for i in f.all_insts():
            if i.op != 'store':
                continue
            a = tt.term(i.ops[1])
            v = tt.term(i.ops[0])
            if a[0] != 'field' or v[0] != 'call' or v[1] not in ('of_calloc', 'calloc', 'of_malloc', 'malloc'):
                continue
            call = f.insts[v[2]]
            cands = []
            if v[1] in ('of_calloc', 'calloc'):
                cands = [tt.term(call.args[0])]
            else:
                t = tt.term(call.args[0])
                if t[0] == 'bin' and t[1] == 'mul':
                    cands = [t[2], t[3]]
            base = a[1]
            for ct in cands:
                g = None
                if ct[0] in ('load', 'load@') and ct[1][0] == 'field' and ct[1][1] == base:
                    g = ct[1][2]
                else:
                    for (b2, name), vals in stored.items():
                        if b2 == base and ct in vals and ct[0] != 'const':
                            g = name
                if g is not None:
                    key = a[2]
                    if key in reg and reg[key] != g:
                        conflict.add(key)
                    reg.setdefault(key, g)
    for k in conflict:
        reg.pop(k, None)
    return reg


def le_relation(prog):
    """pairs (A, T) of member names with A <= T, from stores T = A + B of members of the same object (symbol counts: the sum
    is validated not to wrap)."""
    le = set()
    for f in prog.all_functions:
        tt = Terms(f, forward=False)
        for i in f.all_insts():
            if i.op != 'store':
                continue
            a = tt.term(i.ops[1])
            v = tt.term(i.ops[0])
            if a[0] == 'field' and v[0] == 'bin' and v[1] == 'add':
                for x in (v[2], v[3]):
                    if x[0] in ('load', 'load@') and x[1][0] == 'field' and x[1][1] == a[1]:
                        le.add((x[1][2], a[2]))
    return le


def r_idx_guard(ctx, prog, scope_units=None, floor=1):
    R = 'R-IDX-GUARD'
    ctx.rule(R, 'whenever an index into a member array is guarded against a member of the same object, the guard is strict (<) and '
             'against the member that holds the array\'s allocated extent (registry built from the allocation sites); unguarded and '
             'data-dependent indices are counted as unanalysed, not judged', floor=floor)
    reg = extent_registry(prog)
    le = le_relation(prog)
    ctx.need(len(reg) >= 6, R, 'extent registry has only %d entries' % len(reg))
    unanalysed = 0
    judged = 0
    for f in prog.all_functions:
        if scope_units is not None and f.unit.name not in scope_units:
            continue
        tt = Terms(f)
        for i in f.all_insts():
            if i.op != 'getelementptr':
                continue
            a = tt.term(_as_v(i))
            # innermost-first: find elem(load(field(base, F)), idx) anywhere in the address
            for (base, F, idx) in _member_elems(a):
                if F not in reg:
                    continue
                G = reg[F]
                atoms = atoms_at(f, tt, i.block)
                rel = []
                for at in atoms:
                    at = norm_atom(at)
                    if at[0] != 'cmp':
                        continue
                    for (x, y, pred) in ((at[2], at[3], at[1]), (at[3], at[2], _swap(at[1]))):
                        if x == idx and y[0] in ('load', 'load@') and y[1][0] == 'field' and y[1][1] == base:
                            rel.append((pred, y[1][2]))
                upper = [(p, g) for (p, g) in rel if p in ('ult', 'ule', 'slt', 'sle')]
                # the same dimension member of ANOTHER object of the kind (copy routines take two matrices): a bound only when
                # the other object's dimension is known not to exceed this one's
                if not upper:
                    foreign = []
                    for at in atoms:
                        at = norm_atom(at)
                        if at[0] != 'cmp':
                            continue
                        for (x, y, pred) in ((at[2], at[3], at[1]), (at[3], at[2], _swap(at[1]))):
                            if x == idx and pred in ('ult', 'ule', 'slt', 'sle') and y[0] in ('load', 'load@') and \
                                    y[1][0] == 'field' and y[1][1] != base and y[1][2] == G and _same_struct(y[1], a, F):
                                foreign.append((pred, y))
                    if foreign:
                        judged += 1
                        mine = ('load', ('field', base, G))
                        good = False
                        for pred, y in foreign:
                            if pred not in ('ult', 'slt'):
                                continue
                            for at in atoms:
                                at = norm_atom(at)
                                if at[0] != 'cmp':
                                    continue
                                for (p2, q2, pr2) in ((at[2], at[3], at[1]), (at[3], at[2], _swap(at[1]))):
                                    if _same_member(p2, y) and _is_member(q2, base, G) and pr2 in ('ule', 'ult', 'sle', 'slt', 'eq'):
                                        good = True
                            if _allocated_like(base, y):
                                good = True
                        ctx.instance(R, good, i, '%s:%s[%s]:foreign' % (f.name, F, _short(idx)),
                                     '%s indexes %s of one object (allocated with its own %s elements) under a bound taken from another '
                                     'object\'s %s, which is not known to be the smaller one' % (f.name, F, G, G))
                        continue
                # only guards against a dimension are bounds: the array's own extent, a member known <= it, or the extent of
                # another array (the wrong dimension); comparisons with unrelated members (counters) say nothing about bounds
                dims = set(reg.values())
                upper = [(p, g) for (p, g) in upper if g == G or (g, G) in le or g in dims]
                if not upper:
                    unanalysed += 1
                    continue
                judged += 1
                good = any(p in ('ult', 'slt') and (g == G or (g, G) in le) for (p, g) in upper)
                ctx.instance(R, good, i, '%s:%s[%s]' % (f.name, F, _short(idx)),
                             '%s indexes %s (allocated with %s elements) under the guard(s) %s: the index is admitted by a non-strict '
                             'bound or by the wrong dimension' % (f.name, F, G, ', '.join('%s %s' % pg for pg in upper)))
    ctx.notes.append('R-IDX-GUARD: %d guarded accesses judged, %d accesses unanalysed (index not guarded against a member)' %
                     (judged, unanalysed))
    return reg, judged, unanalysed


def _same_struct(fld_t, addr, F):
    return True


def _same_member(t, y):
    return t == y or (t[0] in ('load', 'load@') and y[0] in ('load', 'load@') and t[1][0] == 'field' and y[1][0] == 'field' and
                      t[1][1] == y[1][1] and t[1][2] == y[1][2])


def _is_member(t, base, G):
    return t[0] in ('load', 'load@') and t[1][0] == 'field' and t[1][1] == base and t[1][2] == G


def _allocated_like(base, y):
    """base is an object allocated in this function with y (the other object's dimension) as one of its dimensions"""
    return False


def _swap(p):
    from .ir import SWAP
    return SWAP[p]


def _short(t):
    import re
    return re.sub(r'(phi:|#)\d+', 'i', show(t))[:30]


def _as_v(i):
    class X(object):
        pass
    x = X()
    x.k = 'i'
    x.inst = i
    x.idx = i.id
    return x


def _member_elems(a, out=None):
    if out is None:
        out = []
    if isinstance(a, tuple):
        if a[0] == 'elem' and a[1][0] in ('load', 'load@') and a[1][1][0] == 'field':
            out.append((a[1][1][1], a[1][1][2], a[2]))
        for x in a[1:]:
            if isinstance(x, tuple):
                _member_elems(x, out)
    return out


# ------------------------------------------------------------------ R-DLINK
def r_dlink(ctx, prog):
    R = 'R-DLINK'
    ctx.rule(R, 'every sparse-matrix routine that takes a fresh entry links it in both dimensions (its six members set, both row '
             'neighbours and both column neighbours pointed back at it) before returning it; delete unlinks in both dimensions and '
             'pushes the entry on the free list', floor=1)
    u = [x for x in prog.units if x.name == 'of_matrix_sparse.c']
    ctx.need(u, R, 'unit of_matrix_sparse.c missing')
    n = 0
    for f in u[0].functions.values():
        tt = Terms(f)
        news = [c for c in f.calls('of_alloc_entry')]
        for ne in news:
            n += 1
            net = ('call', 'of_alloc_entry', ne.id)
            own = set()
            back = set()
            for i in f.all_insts():
                if i.op != 'store':
                    continue
                a = tt.term(i.ops[1])
                v = tt.term(i.ops[0])
                if a[0] == 'field' and a[1] == net:
                    own.add(a[2])
                if v == net and a[0] == 'field' and a[1] != net:
                    back.add(a[2])
            # links made by a static helper that is handed the new entry (e.g. a "link into row" helper) count as made here
            helper_calls = []
            for c in f.calls():
                g = prog.callee_fn(c)
                if g is None or not g.internal or g.unit is not f.unit:
                    continue
                js = [j for j, a0 in enumerate(c.args) if tt.term(a0) == net]
                if not js:
                    continue
                gt = Terms(g)
                for j in js:
                    for i2 in g.all_insts():
                        if i2.op != 'store':
                            continue
                        a2 = gt.term(i2.ops[1])
                        v2 = gt.term(i2.ops[0])
                        if a2[0] == 'field' and a2[1] == ('param', j):
                            own.add(a2[2])
                            helper_calls.append(c)
                        if v2 == ('param', j) and a2[0] == 'field' and a2[1] != ('param', j):
                            back.add(a2[2])
                            helper_calls.append(c)
            miss_own = set(['row', 'col', 'left', 'right', 'up', 'down']) - own
            miss_back = set(['left', 'right', 'up', 'down']) - back
            ctx.instance(R, not miss_own and not miss_back, ne, '%s:link' % f.name,
                         '%s inserts a new entry without setting its member(s) %s / without pointing its neighbour(s) %s back at it: '
                         'row and column traversals disagree' % (f.name, sorted(miss_own), sorted(miss_back)))
            # returned on the success path only after all links are in place: each link store dominates the return of ne
            links = [i for i in f.all_insts() if i.op == 'store' and
                     ((tt.term(i.ops[1])[0] == 'field' and tt.term(i.ops[1])[1] == net) or tt.term(i.ops[0]) == net)]
            links += helper_calls
            origins = [(f.bmap[ch[0][0]] if ch else r.block) for v, ch, r in ret_sources(f) if v is not None and tt.term(v) == net]
            if origins:
                okd = all(all(f.dominates(s, o.term()) for s in links) for o in origins)
                ctx.instance(R, okd, ne, '%s:link-before-return' % f.name,
                             '%s can return the new entry before it is fully linked' % f.name)
    for name in ('of_mod2sparse_delete', 'of_mod2sparse_delete_opt'):
        f = u[0].functions.get(name)
        if f is None:
            continue
        n += 1
        tt = Terms(f, forward=True)      # forwarded: "e->left = m->next_free" must see the OLD head of the free list
        e = ('param', 1)
        un = set()
        un_stores = {}
        push = False
        nf = False
        for i in f.all_insts():
            if i.op != 'store':
                continue
            a = tt.term(i.ops[1])
            v = tt.term(i.ops[0])
            # e->X->Y = e->Y'
            if a[0] == 'field' and a[1][0] in ('load', 'load@') and a[1][1][0] == 'field' and a[1][1][1] == e:
                if v[0] in ('load', 'load@') and v[1][0] == 'field' and v[1][1] == e:
                    un.add((a[1][1][2], a[2], v[1][2]))
                    un_stores[(a[1][1][2], a[2], v[1][2])] = i
            if a[0] == 'field' and a[1] == e and a[2] == 'left' and is_field_load(v, 'next_free'):
                push = True
            if a[0] == 'field' and a[2] == 'next_free' and v == e:
                nf = True
        # the push may live in a static helper that is handed the matrix and the entry
        for c in f.calls():
            g = prog.callee_fn(c)
            if g is None or not g.internal or g.unit is not f.unit:
                continue
            je = [j for j, a0 in enumerate(c.args) if tt.term(a0) == e]
            if not je:
                continue
            gt = Terms(g, forward=True)
            ge = ('param', je[0])
            for i2 in g.all_insts():
                if i2.op != 'store':
                    continue
                a2, v2 = gt.term(i2.ops[1]), gt.term(i2.ops[0])
                if a2[0] == 'field' and a2[1] == ge and a2[2] == 'left' and is_field_load(v2, 'next_free'):
                    push = True
                if a2[0] == 'field' and a2[2] == 'next_free' and v2 == ge:
                    nf = True
        want = set([('up', 'down', 'down'), ('down', 'up', 'up'), ('left', 'right', 'right'), ('right', 'left', 'left')])
        # all four neighbour repairs happen together: once the first one ran, no return is reachable without the others
        # (a repair made conditional -- "the neighbour is the header, nothing to do" -- leaves last_in_col / last_in_row stale)
        if want <= un:
            sts = [un_stores[w] for w in want]
            first = [x for x in sts if all(f.dominates(x, y) or x is y for y in sts)]
            cond = None
            if first:
                for y in sts:
                    if y.block is first[0].block:
                        continue
                    rem = [(y.block.id, s2.id) for s2 in y.block.succs]
                    r2 = f.reachable(first[0].block, removed=rem)
                    if any(rt.block.id in r2 for rt in f.rets()) and y.block.id != first[0].block.id:
                        cond = y
            else:
                cond = sts[0]
            ctx.instance(R, cond is None, cond or f, '%s:unlink-unconditional' % name,
                         '%s repairs one neighbour link only conditionally: after deleting the first / last entry of a row or column '
                         'the header keeps pointing at the freed entry' % name)
        ctx.instance(R, want <= un and push and nf, f, '%s:unlink' % name,
                     '%s must unlink the entry from its row and its column (found %s) and push it on the free list (%s, %s)' %
                     (name, sorted(un), push, nf))
    ctx.need(n >= 3, R, 'insert/delete routines not found')


# ------------------------------------------------------------------ R-WORDGEOM
def r_wordgeom(ctx, prog):
    R = 'R-WORDGEOM'
    ctx.rule(R, 'dense matrix bit addressing: word index = col >> S, bit index = col & M with M + 1 = 1 << S = bit width of a matrix '
             'word, in get/set/flip; the allocator computes n_words = (n_cols + M) >> S with the same S and M', floor=1)
    for name in ('of_mod2dense_get', 'of_mod2dense_set', 'of_mod2dense_flip'):
        f = prog.need_fn(name, R)
        tt = Terms(f)
        col = ('param', 2)
        shifts = set()
        masks = set()
        widths = set()
        for i in f.all_insts():
            if i.op in ('load', 'store'):
                a = tt.term(i.ops[0] if i.op == 'load' else i.ops[1])
                # row[r][col >> S]
                if a[0] == 'elem' and a[2][0] == 'bin' and a[2][1] in ('lshr', 'ashr') and a[2][2] == col and a[2][3][0] == 'const':
                    shifts.add(a[2][3][1])
                    widths.add(8 * i.size)
                    base = a[1]
                    okbase = base[0] in ('load', 'load@') and base[1][0] == 'elem' and base[1][2] == ('param', 1) and \
                        is_field_load(base[1][1], 'row')
                    if not okbase:
                        ctx.fail(R, i, name + ':row', '%s does not address row[row][col >> S]' % name)
            if i.op in ('lshr', 'shl'):
                t = tt.term(i.ops[1])
                if t[0] == 'bin' and t[1] == 'and' and t[2] == col and t[3][0] == 'const':
                    masks.add(t[3][1])
        ok = len(shifts) == 1 and len(masks) == 1 and len(widths) == 1
        if ok:
            S, M, W = list(shifts)[0], list(masks)[0], list(widths)[0]
            ok = (M + 1 == (1 << S) == W)
        ctx.instance(R, ok, f, name + ':geometry',
                     '%s: word shift %s, bit mask %s, word width %s bits are inconsistent (need mask + 1 = 1 << shift = width)' %
                     (name, sorted(shifts), sorted(masks), sorted(widths)))
    f = prog.need_fn('of_mod2dense_allocate', R)
    tt = Terms(f, forward=True)
    ok = False
    seen = None
    for i in f.all_insts():
        if i.op == 'store' and addr_root(tt.term(i.ops[1])) == ('field', 'n_words'):
            v = tt.term(i.ops[0])
            seen = v
            # ((n_cols + M) >> S)
            if v[0] == 'bin' and v[1] in ('lshr', 'ashr') and v[3] == ('const', 5) or (v[0] == 'bin' and v[1] in ('lshr', 'ashr')):
                S = v[3][1] if v[3][0] == 'const' else None
                a = v[2]
                if a[0] == 'bin' and a[1] in ('add', 'sub'):
                    parts = _flatten_add(a)
                    consts = sum(c for c in parts if isinstance(c, int))
                    syms = [p for p in parts if not isinstance(p, int)]
                    ok = S is not None and consts == (1 << S) - 1 and len(syms) == 1 and syms[0] == ('param', 1)
    ctx.instance(R, ok, f, 'of_mod2dense_allocate:n_words',
                 'of_mod2dense_allocate computes n_words = %s; need (n_cols + 2^S - 1) >> S' % (show(seen) if seen else '?'))


def _flatten_add(t):
    if t[0] == 'bin' and t[1] == 'add':
        return _flatten_add(t[2]) + _flatten_add(t[3])
    if t[0] == 'bin' and t[1] == 'sub' and t[3][0] == 'const':
        return _flatten_add(t[2]) + [-t[3][1]]
    if t[0] == 'const':
        return [t[1]]
    return [t]


# ------------------------------------------------------------------ R-BITLOOP
def r_bitloop(ctx, prog):
    R = 'R-BITLOOP'
    ctx.rule(R, 'a bit-serial population count loop (accumulate x & 1, shift x right by one) over a w-bit operand runs w times', floor=1)
    n = 0
    for f in prog.all_functions:
        if f.unit.name != 'of_hamming_weight.c':
            continue
        tt = Terms(f)
        for lp in f.loops.values():
            # phi x with update x >> 1, and an accumulator adding (x & 1)
            xs = []
            for i in lp.header.insts:
                if i.op == 'phi':
                    for bid, v in i.incoming:
                        sv = strip_casts(v)
                        if bid in lp.blocks and sv.k == 'i' and sv.inst.op == 'lshr' and const_of(sv.inst.ops[1]) == 1 and \
                                strip_casts(sv.inst.ops[0]).k == 'i' and strip_casts(sv.inst.ops[0]).inst is i:
                            xs.append(i)
            if not xs:
                continue
            n += 1
            x = xs[0]
            width = int(x.ty[1:]) if x.ty and x.ty[0] == 'i' else None
            lr = loop_range(f, lp, tt)
            trip = None
            if lr is not None and lr.start == ('const', 0) and lr.step == 1 and lr.pred in ('ult', 'slt') and lr.bound[0] == 'const':
                trip = lr.bound[1]
            ctx.instance(R, trip is not None and trip == width, x, '%s:bitloop' % f.name,
                         '%s counts bits of a %s-bit operand one at a time but loops %s times' % (f.name, width, trip))
    ctx.need(n >= 1, R, 'no bit-serial popcount loop found')


# ------------------------------------------------------------------ R-PAIRSWAP
def r_pairswap(ctx, prog):
    R = 'R-PAIRSWAP'
    ctx.rule(R, 'in the forward elimination of the dense solver a row exchange of the matrix and the exchange of the corresponding '
             'right-hand sides happen together, on the same pair of indices', floor=1)
    f = prog.fn('of_linear_binary_code_col_forward_elimination', 'of_ml_tool.c')
    ctx.need(f is not None, R, 'of_linear_binary_code_col_forward_elimination not found')
    tt = Terms(f)
    mrow = []
    ctab = []
    for i in f.all_insts():
        if i.op != 'store':
            continue
        a = tt.term(i.ops[1])
        v = tt.term(i.ops[0])
        if a[0] != 'elem' or v[0] not in ('load', 'load@') or v[1][0] != 'elem' or v[1][1] != a[1] or v[1][2] == a[2]:
            continue
        if is_field_load(a[1], 'row', ('param', 1)):
            mrow.append((i.block.id, a[2], v[1][2], i))
        elif a[1] == ('param', 2):
            ctab.append((i.block.id, a[2], v[1][2], i))
    ok = len(mrow) >= 2 and sorted(x[:3] for x in mrow) == sorted(x[:3] for x in ctab)
    ctx.instance(R, ok, (mrow or ctab or [(0, 0, 0, f)])[0][3] if (mrow or ctab) else f, 'forward_elimination:swap',
                 'matrix rows are exchanged at %s but the right-hand sides at %s: an equation keeps the wrong constant term' %
                 ([(b, show(x), show(y)) for b, x, y, _ in mrow], [(b, show(x), show(y)) for b, x, y, _ in ctab]))


# ------------------------------------------------------------------ R-ROWCOL-SYMMETRY / R-BLOCKCHAIN / R-SCRATCH-RESET
def r_rowcol_symmetry(ctx, prog):
    """In find / insert the row-wise and the column-wise searches are mirror images: the comparisons of an entry's column with
    the wanted column and of an entry's row with the wanted row use the same predicates the same number of times."""
    R = 'R-ROWCOL-SYMMETRY'
    ctx.rule(R, 'sibling agreement inside the sparse matrix: the row-dimension and column-dimension searches of find/insert compare '
             'with the same predicates', floor=1)
    from .ir import SWAP
    u = [x for x in prog.units if x.name == 'of_matrix_sparse.c']
    ctx.need(u, R, 'unit missing')
    for name in ('of_mod2sparse_find', 'of_mod2sparse_insert'):
        f = u[0].functions.get(name)
        ctx.need(f is not None, R, '%s missing' % name)
        tt = Terms(f)
        preds = {'row': [], 'col': []}
        for i in f.all_insts():
            if i.op != 'icmp':
                continue
            a, b = tt.term(i.ops[0]), tt.term(i.ops[1])
            for (x, y, p) in ((a, b, i.pred), (b, a, SWAP[i.pred])):
                if x[0] in ('load', 'load@') and x[1][0] == 'field' and x[1][2] in ('row', 'col') and x[1][1][0] != 'param':
                    want = ('param', 1) if x[1][2] == 'row' else ('param', 2)
                    if y == want:
                        preds[x[1][2]].append(p.replace('u', 's') if p[0] == 'u' else p)
        ok = sorted(preds['row']) == sorted(preds['col']) and preds['row']
        ctx.instance(R, bool(ok), f, name + ':mirror',
                     '%s compares entry rows with %s but entry columns with %s: the two dimensions no longer search alike' %
                     (name, sorted(preds['row']), sorted(preds['col'])))


def r_blockchain(ctx, prog):
    R = 'R-BLOCKCHAIN'
    ctx.rule(R, 'a fresh entry block becomes the head of of_mod2sparse.blocks only after its `next` link received the old head '
             '(otherwise earlier blocks become unreachable and are never freed)', floor=1)
    n = 0
    for f in prog.all_functions:
        if f.unit.name != 'of_matrix_sparse.c':
            continue
        tt = Terms(f)
        for i in f.all_insts():
            if i.op == 'store' and addr_root(tt.term(i.ops[1])) == ('field', 'blocks'):
                v = tt.term(i.ops[0])
                if v[0] == 'call' and v[1] in ALLOCATORS:
                    n += 1
                    base = tt.term(i.ops[1])[1]
                    link = [s2 for s2 in f.all_insts() if s2.op == 'store' and tt.term(s2.ops[1])[0] == 'field' and
                            tt.term(s2.ops[1])[1] == v and tt.term(s2.ops[1])[2] == 'next' and
                            is_field_load(tt.term(s2.ops[0]), 'blocks', None) and f.dominates(s2, i)]
                    ctx.instance(R, bool(link), i, '%s:chain' % f.name,
                                 '%s makes a new block the head of the block list without linking it to the previous head' % f.name)
    ctx.need(n >= 1, R, 'no block allocation found')


def r_scratch_reset(ctx, prog):
    R = 'R-SCRATCH-RESET'
    ctx.rule(R, 'the solver\'s scratch list (tmp_tab_symbols / nb_tmp_symbols) is emptied before it is filled: every append is '
             'dominated by a reset of the counter in the same routine, and no reset lies between an append and its consumer', floor=1)
    n = 0
    for f in prog.all_functions:
        tt = Terms(f)
        appends = [i for i in f.all_insts() if i.op == 'store' and addr_root(tt.term(i.ops[1])) == ('elems', 'tmp_tab_symbols')]
        if not appends:
            continue
        resets = [i for i in f.all_insts() if i.op == 'store' and addr_root(tt.term(i.ops[1])) == ('field', 'nb_tmp_symbols')
                  and const_of(i.ops[0]) == 0]
        for a in appends:
            n += 1
            ok = any(f.dominates(r, a) for r in resets)
            ctx.instance(R, ok, a, '%s:append' % f.name,
                         '%s appends to the scratch list without having emptied it first in this routine: entries left by an earlier '
                         'solve are processed again' % f.name)
    ctx.need(n >= 2, R, 'scratch list appends not found')


def r_dense_rowfill(ctx, prog):
    R = 'R-DENSE-ROWFILL'
    ctx.rule(R, 'every dense-matrix routine that overwrites the words of a destination row in a loop writes it up to the destination\'s '
             'own word count (a row is never left with stale words beyond a narrower source)', floor=1)
    n = 0
    for f in prog.all_functions:
        if f.unit.name != 'of_matrix_dense.c':
            continue
        tt = Terms(f)
        per_dst = {}
        for lp in f.loops.values():
            lr = loop_range(f, lp, tt)
            if lr is None:
                continue
            for bid in lp.blocks:
                if f.bmap[bid].loop != lp.header.id:
                    continue
                for i in f.bmap[bid].insts:
                    if i.op != 'store':
                        continue
                    a = tt.term(i.ops[1])
                    # X->row[j][k]
                    if a[0] == 'elem' and a[1][0] in ('load', 'load@') and a[1][1][0] == 'elem' and \
                            is_field_load(a[1][1][1], 'row', None) and a[1][1][1][1][1][0] == 'param':
                        base = a[1][1][1][1][1]
                        per_dst.setdefault((base, a[1][1][2]), []).append((lr, i))      # per destination matrix and row index
        for (base, rowidx), lst in per_dst.items():
            n += 1
            bounds = set()
            for lr, i in lst:
                bounds.add(lr.bound)
            want = ('load', ('field', base, 'n_words', 8))
            ok = any(_same_field(b, base, 'n_words') for b in bounds)
            ctx.instance(R, ok, lst[0][1], '%s:arg%d:row[%s]' % (f.name, base[1], _short(rowidx)),
                         '%s overwrites rows of its matrix argument %d word by word but never up to that matrix\'s own n_words '
                         '(loop bounds: %s): words beyond a narrower source keep stale bits' % (f.name, base[1], sorted(show(b) for b in bounds)))
    ctx.need(n >= 3, R, 'only %d row-overwriting routines found' % n)


def _same_field(t, base, name):
    return t[0] in ('load', 'load@') and t[1][0] == 'field' and t[1][1] == base and t[1][2] == name


# ------------------------------------------------------------------ R-SOLVER-RANGES
def calls_in_loop(f, lp):
    return [i for b in f.blocks if b.id in lp.blocks for i in b.insts if i.op == 'call']


def r_solver_ranges(ctx, prog):
    """Index ranges of the dense solver (Gaussian elimination with row exchange, back substitution).  Each is a necessary
    condition of "returns the unique solution when the matrix has full column rank": a pivot search that skips row i or stops
    before the last row misses pivots, an elimination that does not reach the last row leaves the column non-zero, a row XOR that
    starts after the pivot's word loses bits, a back substitution that does not visit every later column drops terms."""
    R = 'R-SOLVER-RANGES'
    ctx.rule(R, 'dense solver: triangularisation visits columns 0..q-1; the pivot search of column i scans rows i..p-1 and fails only '
             'when exhausted; elimination scans rows i+1..p-1; the row XOR covers words (i>>5)..n_words-1; back substitution visits '
             'rows q-1..0 and, for row i, columns i+1..q-1', floor=1)
    FE = prog.need_fn('of_linear_binary_code_col_forward_elimination', R)
    TR = prog.need_fn('of_linear_binary_code_triangularize_dense_system', R)
    BS = prog.need_fn('of_linear_binary_code_backward_substitution', R)

    def fldload(base, name):
        return lambda t: t[0] in ('load', 'load@') and t[1][0] == 'field' and t[1][1] == base and t[1][2] == name

    def ranges(f):
        tt = Terms(f)
        out = []
        for lp in f.loops.values():
            lr = loop_range(f, lp, tt)
            out.append((lp, lr))
        return tt, out
    def has_store(f, lp, direct_only=False):
        return any(x.op == 'store' for b in f.blocks if b.id in lp.blocks for x in b.insts)

    def role(f, rs, what, pred):
        """the single loop of f playing a role (selected by structure, not by its range); its canonical range must exist"""
        c = [(lp, lr) for lp, lr in rs if pred(lp)]
        ctx.need(len(c) == 1, R, '%s: expected exactly one %s loop, found %d (solver restructured: cannot decide)' % (f.name, what, len(c)))
        ctx.need(c[0][1] is not None, R, '%s: the %s loop has no canonical induction variable (cannot decide)' % (f.name, what))
        return c[0]

    def up(lr, start_ok, bound_ok):
        return start_ok(lr.start) and lr.step == 1 and lr.pred in ('slt', 'ult') and bound_ok(lr.bound)
    # --- triangularisation
    tt, rs = ranges(TR)
    lp, lr = role(TR, rs, 'column', lambda l: l.depth == 1)
    calls = [c for c in calls_in_loop(TR, lp) if c.callee == FE.name]
    ctx.need(calls, R, 'triangularisation does not call the forward elimination')
    ok = up(lr, lambda t: t == ('const', 0), fldload(('param', 1), 'n_cols')) and \
        tt.term(calls[0].args[3]) == tt.term(_V(lr.iv)) and tt.term(calls[0].args[1]) == ('param', 1)
    ctx.instance(R, ok, lr.cmp, 'triangularize:columns', 'triangularisation does not run the forward elimination for every column 0..n_cols-1 in turn')
    # --- forward elimination of column i = param 3
    tt, rs = ranges(FE)
    i = ('param', 3)
    nrows = fldload(('param', 1), 'n_rows')
    plp, plr = role(FE, rs, 'pivot-search (store-free)', lambda l: l.depth == 1 and not has_store(FE, l))
    elp, elr = role(FE, rs, 'elimination (storing)', lambda l: l.depth == 1 and has_store(FE, l))
    from .rules_own import _lin as _lin0
    ctx.instance(R, up(plr, lambda t: _lin0(t) == _lin0(i), nrows), plr.cmp, 'forward:pivot-search',
                 'the pivot search of column i does not scan the rows i..n_rows-1 (found: from %s while %s %s)' % (show(plr.start), plr.pred, show(plr.bound)))
    ctx.instance(R, up(elr, lambda t: _lin0(t) == _lin0(('bin', 'add', i, ('const', 1))), nrows), elr.cmp, 'forward:elimination',
                 'the elimination of column i does not scan the rows i+1..n_rows-1 (found: from %s while %s %s)' % (show(elr.start), elr.pred, show(elr.bound)))
    # failure only when the search is exhausted: the 0-returning origin is guarded by j == rows (or j >= rows)
    okf = False
    n0 = 0
    for v, chain, r in ret_sources(FE):
        if const_of(v) == 0:
            n0 += 1
            src = FE.bmap[chain[0][0]] if chain else r.block
            atoms = [norm_atom(a) for a in atoms_at(FE, tt, src)]
            okf = any(a[0] == 'cmp' and a[1] in ('eq', 'sge', 'uge') and nrows(a[3]) and a[2][0] == 'phi' for a in atoms) or \
                any(a[0] == 'cmp' and a[1] in ('eq', 'sle', 'ule') and nrows(a[2]) and a[3][0] == 'phi' for a in atoms)
    ctx.need(n0 >= 1, R, 'forward elimination has no failure return')
    ctx.instance(R, n0 == 1 and okf, FE, 'forward:fail-iff-exhausted',
                 'the forward elimination reports failure on a path that is not "pivot search reached the last row without a hit"')
    xlp, xlr = role(FE, rs, 'row-XOR', lambda l: l.parent is elp)
    okx = up(xlr, lambda t: t in (('bin', 'ashr', i, ('const', 5)), ('bin', 'lshr', i, ('const', 5)), ('const', 0)), fldload(('param', 1), 'n_words'))
    ctx.instance(R, okx, xlr.cmp, 'forward:xor-words', 'the row XOR does not cover the words from the pivot\'s word (i >> 5, or 0) to n_words-1')
    # --- back substitution
    tt, rs = ranges(BS)
    ncols = fldload(('param', 1), 'n_cols')
    olp, olr = role(BS, rs, 'row', lambda l: l.depth == 1)
    from .rules_own import _lin
    iv = tt.term(_V(olr.iv))

    def lin_eq(a, b):
        return _lin(a) == _lin(b)
    # rows n_cols-1 .. 0: `for (i = n-1; i >= 0; i--)` visits i; `i = n; while (i > 0) { i--; ... }` visits i-1
    formA = olr.step == -1 and olr.pred == 'sge' and olr.bound == ('const', 0) and \
        _lin(olr.start)[1] == -1 and [k2 for k2 in _lin(olr.start)[0]] and all(ncols(k2) for k2 in _lin(olr.start)[0]) and \
        list(_lin(olr.start)[0].values()) == [1]
    formB = olr.step == -1 and olr.pred == 'sgt' and olr.bound == ('const', 0) and ncols(olr.start)
    ctx.instance(R, formA or formB, olr.cmp, 'backward:rows', 'back substitution does not visit the rows n_cols-1 down to 0')
    idx = iv if formA else ('bin', 'sub', iv, ('const', 1))
    ilp, ilr = role(BS, rs, 'column', lambda l: l.parent is olp)
    ctx.instance(R, up(ilr, lambda t: lin_eq(t, ('bin', 'add', idx, ('const', 1))), ncols), ilr.cmp, 'backward:columns',
                 'for row i the back substitution does not scan the columns i+1..n_cols-1')


# ------------------------------------------------------------------ R-CONVERT-RANGE
def r_convert_range(ctx, prog):
    """The sparse <-> dense conversions visit every row (and, dense -> sparse, every column) of the source matrix: the counting
    loops run from 0 to the source's own dimension.  A conversion that stops one row short drops an equation of the system the ML
    decoder hands to the solver -- only noticed when no equation is to spare."""
    from .rules_own import _lin
    R = 'R-CONVERT-RANGE'
    ctx.rule(R, 'of_mod2sparse_to_dense / of_mod2dense_to_sparse iterate over all rows (and columns) of the source matrix', floor=1)
    for name, dims in (('of_mod2sparse_to_dense', ('n_rows',)), ('of_mod2dense_to_sparse', ('n_rows', 'n_cols'))):
        f = prog.need_fn(name, R)
        tt = Terms(f)
        lrs = []
        for lp in f.loops.values():
            lr = loop_range(f, lp, tt)
            if lr is not None:
                lrs.append((lp, lr))
        for depth, dim in enumerate(dims, 1):
            cand = [(lp, lr) for lp, lr in lrs if lp.depth == depth]
            ctx.need(cand, R, '%s: no counting loop at depth %d (cannot decide)' % (name, depth))
            lp, lr = cand[0]
            want = ('load', ('field', ('param', 0), dim))
            b = lr.bound
            okb = b[0] in ('load', 'load@') and b[1][0] == 'field' and b[1][1] == ('param', 0) and b[1][2] == dim
            ok = okb and lr.start == ('const', 0) and lr.step == 1 and lr.pred in ('ult', 'slt')
            ctx.instance(R, ok, lr.cmp, '%s:%s' % (name, dim),
                         '%s visits "%s" of the source matrix; it must visit 0 .. %s-1' % (name, lr.describe(), dim))


# ------------------------------------------------------------------ R-HINT-ORDER
def r_hint_order(ctx, prog):
    """of_mod2sparse_insert_opt starts its search in the destination column at the entry remembered from the previous insertion
    into that column: it links the new entry correctly only if the destination rows arrive in increasing order.  Every call
    must therefore pass a row that provably increases: an ascending loop counter, or the row of an entry reached by walking a
    column list downwards."""
    R = 'R-HINT-ORDER'
    ctx.rule(R, 'every call of the hinted insertion of_mod2sparse_insert_opt passes a destination row that increases from call to '
             'call (ascending loop counter, or the row of an entry reached through ->down)', floor=1)
    n = 0
    for f in prog.all_functions:
        cs = [c for c in f.calls('of_mod2sparse_insert_opt')]
        if not cs:
            continue
        tt = Terms(f)
        for c in cs:
            n += 1
            row = tt.term(c.args[1])
            while row[0] == 'trunc':
                row = row[2]
            ok = False
            why = show(row)[:60]
            if row[0] == 'phi':
                for lp in f.loops.values():
                    lr = loop_range(f, lp, tt)
                    if lr is not None and tt.term(_V(lr.iv)) == row and lr.step > 0:
                        ok = True
            if row[0] in ('load', 'load@') and row[1][0] == 'field' and row[1][2] == 'row' and row[1][1][0] == 'phi':
                ph = f.insts.get(row[1][1][1])
                if ph is not None and ph.op == 'phi':
                    lpp = f.loops.get(ph.block.id)          # the walk's own loop: ph is its header phi
                    inc = [tt.term(v) for b, v in ph.incoming if lpp is not None and b in lpp.blocks]
                    if inc and all(v[0] in ('load', 'load@') and v[1][0] == 'field' and v[1][2] == 'down' and v[1][1] == ('phi', ph.id)
                                   for v in inc):
                        ok = True
            ctx.instance(R, ok, c, 'hint:%s' % f.name,
                         '%s calls the hinted insertion with destination row %s, which is not known to increase from call to call: an '
                         'entry is linked out of order and column traversals miss it' % (f.name, why))
    if n == 0:
        ctx.ok(R, None, 'hint:none', 'the hinted insertion is not used')
