"""A10 -- kernel extent analysis (C13).

An abstract interpreter over the IR of the seven symbol-arithmetic kernels.  Abstract domain:
  * scalars derived from the size / operand-count parameters: exact integers (the analysis is run once per size class);
  * pointers: (region, byte offset) with regions = pointer parameters, the k-th operand of a pointer-array parameter,
    a row of a multiplication table;
  * data: per byte a pair of nibbles, each an XOR-set (symmetric difference) of provenance atoms -- the original nibbles of
    memory bytes and uninterpreted table look-ups keyed by the provenance of their index.
No data value is ever computed and no library code runs: the result is, per size class, the exact set of bytes loaded and
stored per region and, for every stored byte, its provenance formula, which is compared with the byte-wise definition of the
kernel.  A syntactic check (all size-derived scalars are built with + - * / % << >> & by constants and compared with each
other or constants; no address enters a comparison except pointers into the same buffer; no data byte enters control flow)
shows every extent expression is quasi-affine in `size` with period dividing P = 16, so agreement for all sizes in 0 .. 4P
(more than two periods past the last breakpoint) extends to every size; the operand-count sections are handled likewise
for counts 0 .. 20 (8/4/2/1 sections in every combination).
"""
from .pdb import AnalysisBroken
from .ir import strip_casts

EMPTY = frozenset()


class Byte(object):
    __slots__ = ('hi', 'lo')

    def __init__(self, hi=EMPTY, lo=EMPTY):
        self.hi = hi
        self.lo = lo

    def xor(self, o):
        return Byte(self.hi ^ o.hi, self.lo ^ o.lo)

    def iszero(self):
        return not self.hi and not self.lo

    def key(self):
        return (self.hi, self.lo)

    def __eq__(self, o):
        return isinstance(o, Byte) and self.hi == o.hi and self.lo == o.lo

    def __hash__(self):
        return hash((self.hi, self.lo))

    def __repr__(self):
        def f(s):
            return '^'.join(sorted(map(repr, s))) or '0'
        return '<%s|%s>' % (f(self.hi), f(self.lo))


ZERO = Byte()


def mem_byte(region, off):
    return Byte(frozenset([('H', region, off)]), frozenset([('L', region, off)]))


class Unknown(Exception):
    pass


class Interp(object):
    def __init__(self, prog, fn, spec, size, count, rule='KEA'):
        self.prog = prog
        self.fn = fn
        self.spec = spec
        self.size = size
        self.count = count
        self.rule = rule
        self.mem = {}          # (region, off) -> Byte
        self.loads = {}        # region -> set(off)
        self.stores = {}       # region -> {off: times}
        self.arr_reads = {}    # array region -> set(element index)
        self.env = {}
        self.steps = 0

    # ---- values: ('int', v, bits) ('sym', name, bits) ('ptr', region, off) ('data', [Byte]) ('opaque',)
    def val(self, v):
        k = v.k
        if k == 'i':
            return self.env[v.inst.id]
        if k == 'a':
            return self.args[v.idx]
        if k == 'c':
            return ('int', v.v, v.bits)
        if k == 'null':
            return ('ptr', ('null',), 0)
        if k == 'undef':
            return ('opaque',)
        if k in ('g',):
            return ('ptr', ('global', v.name), 0)
        if k == 'ce':
            g, off = v.strip_global()
            if g is not None:
                return ('ptr', ('global', g), off)
        raise Unknown('operand %r' % (v,))

    def read(self, region, off, n, inst):
        if region[0] == 'row':
            raise Unknown('wide load from a table row at %s' % inst.loc())
        self.loads.setdefault(region, set()).update(range(off, off + n))
        return [self.mem.get((region, off + j), mem_byte(region, off + j)) for j in range(n)]

    def write(self, region, off, bs, inst):
        st = self.stores.setdefault(region, {})
        for j, b in enumerate(bs):
            st[off + j] = st.get(off + j, 0) + 1
            self.mem[(region, off + j)] = b

    def run(self, bound_args=False):
        fn = self.fn
        sp = self.spec
        self.retval = None
        if not bound_args:
            self.args = []
        for i, p in enumerate(fn.params if not bound_args else []):
            ty = p['ty']
            if i == sp.get('size'):
                self.args.append(('int', self.size, 32))
            elif i == sp.get('count'):
                self.args.append(('int', self.count, 32))
            elif i == sp.get('c'):
                self.args.append(('sym', 'c', 8))
            elif ty.endswith('**'):
                self.args.append(('ptr', ('arr', i), 0))
            elif ty.endswith('*'):
                self.args.append(('ptr', ('arg', i), 0))
            else:
                raise Unknown('parameter %d of type %s' % (i, ty))
        b = fn.entry
        prev = None
        while True:
            nxt = None
            # phis first, evaluated simultaneously
            newvals = {}
            for i in b.insts:
                if i.op != 'phi':
                    break
                for bid, v in i.incoming:
                    if prev is not None and bid == prev.id:
                        newvals[i.id] = self.val(v)
            self.env.update(newvals)
            for i in b.insts:
                if i.op == 'phi':
                    continue
                self.steps += 1
                if self.steps > 400000:
                    raise Unknown('step budget exceeded (loop does not terminate in the abstraction?)')
                r = self.step(i)
                if i.op == 'ret':
                    if i.ops:
                        self.retval = self.val(i.ops[0])
                    return
                if i.op in ('br', 'switch'):
                    nxt = r
            prev, b = b, nxt

    def step(self, i):
        op = i.op
        if op == 'br':
            if len(i.ops) == 1:
                return i.block.succs[0]
            c = self.val(i.ops[0])
            if c[0] != 'int':
                raise Unknown('branch on a non-scalar at %s' % i.loc())
            return i.block.succs[0] if (c[1] & 1) else i.block.succs[1]
        if op == 'ret':
            return None
        if op in ('bitcast',):
            self.env[i.id] = self.val(i.ops[0])
            return
        if op in ('zext', 'sext', 'trunc'):
            v = self.val(i.ops[0])
            bits = int(i.ty[1:])
            if v[0] == 'int':
                x = v[1]
                if op == 'sext':
                    m = 1 << (v[2] - 1)
                    x = (x & (m - 1)) - (x & m)
                else:
                    x &= (1 << v[2]) - 1
                x &= (1 << bits) - 1
                if op == 'sext' or op == 'zext':
                    pass
                self.env[i.id] = ('int', x if op != 'sext' else self._signed(x, bits), bits)
            elif v[0] == 'sym':
                self.env[i.id] = ('sym', v[1], bits)
            elif v[0] == 'data':
                n = bits // 8
                bs = list(v[1])
                if op == 'trunc':
                    bs = bs[:max(n, 1)]
                else:
                    bs = bs + [ZERO] * (n - len(bs))
                self.env[i.id] = ('data', bs)
            elif v[0] == 'opaque':
                self.env[i.id] = v
            else:
                raise Unknown('%s of %s' % (op, v[0]))
            return
        if op == 'getelementptr':
            p = self.val(i.ops[0])
            if p[0] != 'ptr':
                raise Unknown('gep on %s' % p[0])
            region, off = p[1], p[2]
            for st in i.path:
                kind = st['kind']
                if kind in ('ptr', 'array'):
                    idx = self.val(st['idxv'])
                    if idx[0] == 'int':
                        off += self._signed(idx[1], idx[2]) * st['elsize']
                    elif idx[0] == 'sym' and region[0] == 'global':
                        region = ('row', region[1], idx[1], st['elsize'])
                        off = 0
                    elif idx[0] == 'data' and region[0] == 'row':
                        # table look-up: address keyed by the provenance of the index byte(s)
                        if any(not b2.iszero() for b2 in idx[1][1:]):
                            raise Unknown('table index wider than a byte')
                        self.env[i.id] = ('lookup', region, idx[1][0])
                        return
                    else:
                        raise Unknown('index %s into %s at %s' % (idx[0], region, i.loc()))
                elif kind == 'field':
                    off += st['off']
                else:
                    raise Unknown('gep step')
            self.env[i.id] = ('ptr', region, off)
            return
        if op == 'load':
            p = self.val(i.ops[0])
            n = i.size
            if p[0] == 'lookup':
                self.env[i.id] = ('data', [self.lookup(p[1], p[2])] + [ZERO] * (n - 1))
                return
            if p[0] != 'ptr':
                raise Unknown('load through %s' % p[0])
            region, off = p[1], p[2]
            if region[0] == 'arr':
                if off % 8 or n != 8:
                    raise Unknown('odd access to the pointer array')
                k = off // 8
                self.arr_reads.setdefault(region, set()).add(k)
                self.env[i.id] = ('ptr', ('opnd', region[1], k), 0)
                return
            if region[0] == 'row':
                raise Unknown('table row read with a constant index')
            if region == ('global', 'of_verbosity'):
                # trace level: only controls print regions (R-VERBOSITY); the kernels are analysed with tracing off
                self.env[i.id] = ('int', 0, 8 * n)
                return
            if region[0] == 'arg' and self.fn.params[region[1]]['ty'] == 'i32*':
                self.env[i.id] = ('opaque',)
                return
            self.env[i.id] = ('data', self.read(region, off, n, i))
            return
        if op == 'store':
            v = self.val(i.ops[0])
            p = self.val(i.ops[1])
            if p[0] != 'ptr':
                raise Unknown('store through %s' % p[0])
            region, off = p[1], p[2]
            if region[0] == 'arg' and self.fn.params[region[1]]['ty'] == 'i32*':
                return      # statistics counter of the OF_DEBUG build
            if v[0] != 'data':
                raise Unknown('store of %s at %s' % (v[0], i.loc()))
            if region[0] not in ('arg', 'opnd'):
                raise Unknown('store into %s' % (region,))
            self.write(region, off, v[1][:i.size], i)
            return
        if op == 'icmp':
            a, b = self.val(i.ops[0]), self.val(i.ops[1])
            if a[0] == 'ptr' and b[0] == 'ptr':
                if a[1] != b[1]:
                    if ('null',) in (a[1], b[1]):
                        res = (a[1] == b[1])
                        res = res if i.pred == 'eq' else (not res) if i.pred == 'ne' else None
                        if res is None:
                            raise Unknown('ordered compare with NULL')
                        self.env[i.id] = ('int', int(res), 1)
                        return
                    raise Unknown('comparison of pointers into different buffers at %s (address-dependent control flow)' % i.loc())
                x, y = a[2], b[2]
                pred = i.pred.replace('u', 's') if i.pred[0] == 'u' else i.pred   # offsets relative to one base
            elif a[0] == 'int' and b[0] == 'int':
                x, y, pred = a[1], b[1], i.pred
                bits = a[2]
                if pred[0] == 's':
                    x, y = self._signed(x, bits), self._signed(y, bits)
                else:
                    x &= (1 << bits) - 1
                    y &= (1 << bits) - 1
            elif a[0] == 'opaque' or b[0] == 'opaque':
                self.env[i.id] = ('opaque',)
                return
            else:
                raise Unknown('data-dependent comparison at %s' % i.loc())
            res = {'eq': x == y, 'ne': x != y, 'ugt': x > y, 'uge': x >= y, 'ult': x < y, 'ule': x <= y,
                   'sgt': x > y, 'sge': x >= y, 'slt': x < y, 'sle': x <= y}[pred]
            self.env[i.id] = ('int', int(res), 1)
            return
        if op in ('add', 'sub', 'mul', 'shl', 'lshr', 'ashr', 'and', 'or', 'xor', 'urem', 'udiv', 'srem', 'sdiv'):
            a, b = self.val(i.ops[0]), self.val(i.ops[1])
            bits = int(i.ty[1:])
            if a[0] == 'opaque' or b[0] == 'opaque':
                self.env[i.id] = ('opaque',)
                return
            if a[0] == 'int' and b[0] == 'int':
                self.env[i.id] = ('int', self._arith(op, a[1], b[1], bits), bits)
                return
            self.env[i.id] = ('data', self._data_arith(op, a, b, bits, i))
            return
        if op == 'select':
            c = self.val(i.ops[0])
            if c[0] != 'int':
                raise Unknown('select on data')
            self.env[i.id] = self.val(i.ops[1] if c[1] & 1 else i.ops[2])
            return
        if op == 'alloca':
            self.env[i.id] = ('ptr', ('local', i.id), 0)
            return
        if op == 'call':
            g = self.prog.callee_fn(i) if i.callee else None
            if g is not None and g.internal and g.unit is self.fn.unit and getattr(self, 'depth', 0) < 2:
                # a static helper of the kernel's unit (e.g. the tail loop extracted into a function): interpreted in place, on the
                # same abstract memory
                sub = Interp(self.prog, g, self.spec, self.size, self.count, self.rule)
                sub.depth = getattr(self, 'depth', 0) + 1
                sub.mem, sub.loads, sub.stores, sub.arr_reads = self.mem, self.loads, self.stores, self.arr_reads
                sub.args = [self.val(a) for a in i.args]
                sub.steps = self.steps
                sub.run(bound_args=True)
                self.steps = sub.steps
                self.env[i.id] = sub.retval if sub.retval is not None else ('opaque',)
                return
            raise Unknown('call of %s inside a kernel' % i.callee)
        raise Unknown('operation %s at %s' % (op, i.loc()))

    @staticmethod
    def _signed(x, bits):
        x &= (1 << bits) - 1
        return x - (1 << bits) if x >> (bits - 1) else x

    def _arith(self, op, x, y, bits):
        m = (1 << bits) - 1
        ux, uy = x & m, y & m
        sx, sy = self._signed(x, bits), self._signed(y, bits)
        if op == 'add':
            r = ux + uy
        elif op == 'sub':
            r = ux - uy
        elif op == 'mul':
            r = ux * uy
        elif op == 'shl':
            r = ux << (uy & 63)
        elif op == 'lshr':
            r = ux >> (uy & 63)
        elif op == 'ashr':
            r = sx >> (uy & 63)
        elif op == 'and':
            r = ux & uy
        elif op == 'or':
            r = ux | uy
        elif op == 'xor':
            r = ux ^ uy
        elif op == 'urem':
            r = ux % uy if uy else 0
        elif op == 'udiv':
            r = ux // uy if uy else 0
        elif op == 'srem':
            r = abs(sx) % abs(sy) * (1 if sx >= 0 else -1) if sy else 0
        elif op == 'sdiv':
            r = int(sx / sy) if sy else 0
        return r & m

    def _as_data(self, v, n):
        if v[0] == 'data':
            return list(v[1]) + [ZERO] * (n - len(v[1]))
        raise Unknown('mix of data and scalar')

    def _data_arith(self, op, a, b, bits, inst):
        n = bits // 8
        if op == 'xor' and a[0] == 'data' and b[0] == 'data':
            x, y = self._as_data(a, n), self._as_data(b, n)
            return [p.xor(q) for p, q in zip(x, y)]
        if op == 'or' and a[0] == 'data' and b[0] == 'data':
            x, y = self._as_data(a, n), self._as_data(b, n)
            out = []
            for p, q in zip(x, y):
                if (p.hi and q.hi) or (p.lo and q.lo):
                    raise Unknown('OR of overlapping data nibbles at %s' % inst.loc())
                out.append(Byte(p.hi or q.hi, p.lo or q.lo))
            return out
        if op == 'ashr' and a[0] == 'data' and b[0] == 'int':
            x = self._as_data(a, n)
            if not x[-1].iszero():
                raise Unknown('arithmetic shift of data whose top byte is not known zero')
            op = 'lshr'        # zero-extended value: arithmetic and logical shifts coincide
        if op in ('shl', 'lshr') and a[0] == 'data' and b[0] == 'int':
            x = self._as_data(a, n)
            sh = b[1]
            if sh % 4:
                raise Unknown('shift of data by %d bits' % sh)
            nib = []
            for p in x:
                nib.append(p.lo)
                nib.append(p.hi)
            k = sh // 4
            if op == 'shl':
                nib = [EMPTY] * k + nib
                nib = nib[:2 * n]
            else:
                nib = nib[k:] + [EMPTY] * k
            return [Byte(nib[2 * j + 1], nib[2 * j]) for j in range(n)]
        if op == 'and' and ((a[0] == 'data' and b[0] == 'int') or (a[0] == 'int' and b[0] == 'data')):
            d, m = (a, b) if a[0] == 'data' else (b, a)
            x = self._as_data(d, n)
            mask = m[1] & ((1 << bits) - 1)
            out = []
            for j, p in enumerate(x):
                mb = (mask >> (8 * j)) & 0xff
                if mb not in (0, 0x0f, 0xf0, 0xff):
                    raise Unknown('mask %#x on data' % mb)
                out.append(Byte(p.hi if mb & 0xf0 else EMPTY, p.lo if mb & 0x0f else EMPTY))
            return out
        raise Unknown('%s on %s, %s at %s' % (op, a[0], b[0], inst.loc()))

    def lookup(self, region, idx):
        """T[c][idx] as a byte of provenance.  For the packed GF(2^4) table the verified identity
        opt[c][h<<4|l] = mul[c][h]<<4 | mul[c][l] (R-TABLES) is applied, so the nibbles stay separate."""
        kind = self.spec.get('lookup', 'T')
        if kind == 'nibble':
            return Byte(frozenset([('Mul', region[1], region[2], idx.hi)]) if idx.hi else EMPTY,
                        frozenset([('Mul', region[1], region[2], idx.lo)]) if idx.lo else EMPTY)
        key = (region[1], region[2], idx.key())
        return Byte(frozenset([('Th',) + key]), frozenset([('Tl',) + key]))
