"""C18: the population-count helpers, decided for every input.

R-SWAR     of_popcount_3 (64 bit) and of_hweight32 (32 bit) are loop-free SWAR formulas.  They are interpreted in the domain of
           integer linear forms over the input's bits  V = c0 + sum_i c_i * b_i  (b_i in {0,1} independent, all c_i >= 0, so
           max V = c0 + sum c_i is exact).  + and - are exact when the result provably stays in [0, 2^W); `>> c` and `& mask`
           are exact when the terms split into a part divisible by 2^c and a low part whose maximum stays below 2^c (the SWAR
           "fields do not carry into each other" argument, discharged per operation); `* K` reduces coefficients modulo 2^W.
           The returned form has to be  sum_i b_i  -- the population count -- for all 2^W inputs at once.  Nothing is executed:
           no input value is ever chosen.
R-HW32-TABLE of_hweight32_table adds of_hw8table[] entries (R-HW8: exact) indexed by the four distinct bytes of its argument.
R-HW-ARRAY of_hweight_array(array, size in bits): abstract interpretation with exact integers for the size-derived scalars
           (kea.Interp) for every size class of one period (the size is only shifted / divided by constants: quasi-affine, period
           64 bits): the bytes read are exactly [0, 4*ceil(size/32)), each once, each handed exactly once to a proven
           population-count helper, and the result is the plain sum of those calls.
"""
from collections import Counter

from .ir import strip_casts
from .kea import Interp, Unknown, mem_byte

HW_UNIT = 'of_hamming_weight.c'


class Unproven(Exception):
    pass


class Form(object):
    """c0 + sum c[i]*b_i, all coefficients non-negative integers, value known to be < 2^bits"""
    def __init__(self, bits, c0=0, c=None):
        self.bits = bits
        self.c0 = c0
        self.c = dict((k, v) for k, v in (c or {}).items() if v)

    def max(self):
        return self.c0 + sum(self.c.values())

    def check(self, what):
        if self.c0 < 0 or any(v < 0 for v in self.c.values()):
            raise Unproven('%s: a coefficient becomes negative (the subtraction can borrow)' % what)
        if self.max() >= (1 << self.bits):
            raise Unproven('%s: the value can exceed %d bits (a field can carry out)' % (what, self.bits))
        return self

    def split(self, c, what):
        """(H, L): terms divisible by 2^c and the rest; requires max(L) < 2^c"""
        m = 1 << c
        # every coefficient is itself split: v*b = (v - v % m)*b + (v % m)*b (one input bit may feed several fields)
        hi = Form(self.bits, self.c0 - self.c0 % m, dict((k, v - v % m) for k, v in self.c.items()))
        lo = Form(self.bits, self.c0 % m, dict((k, v % m) for k, v in self.c.items()))
        if lo.max() >= m:
            raise Unproven('%s: the part below bit %d can reach %d >= 2^%d (fields overlap the cut)' % (what, c, lo.max(), c))
        return hi, lo

    def shr(self, c, what):
        hi, lo = self.split(c, what)
        return Form(self.bits, hi.c0 >> c, dict((k, v >> c) for k, v in hi.c.items()))

    def modpow(self, w, what):
        """V mod 2^w"""
        m = 1 << w
        lo = Form(self.bits, self.c0 % m, dict((k, v % m) for k, v in self.c.items()))
        if lo.max() >= m:
            raise Unproven('%s: the kept field can reach %d >= 2^%d' % (what, lo.max(), w))
        return lo

    def scale(self, k):
        m = 1 << self.bits
        return Form(self.bits, (self.c0 * k) % m, dict((i, (v * k) % m) for i, v in self.c.items()))


def _runs(mask, bits):
    out = []
    i = 0
    while i < bits:
        if (mask >> i) & 1:
            j = i
            while j < bits and (mask >> j) & 1:
                j += 1
            out.append((i, j))
            i = j
        else:
            i += 1
    return out


def eval_form(fn):
    """bit-linear form of the returned value of a loop-free single-argument function"""
    if len(fn.blocks) != 1:
        raise Unproven('the function is no longer straight-line code')
    pbits = int(fn.params[0]['ty'][1:])
    env = {}

    def val(v):
        if v.k == 'a':
            return Form(pbits, 0, dict((i, 1 << i) for i in range(pbits)))
        if v.k == 'c':
            return Form(v.bits, v.v & ((1 << v.bits) - 1), {})
        if v.k == 'i':
            if v.inst.id not in env:
                raise Unproven('value defined by %s is outside the domain' % v.inst.op)
            return env[v.inst.id]
        raise Unproven('operand kind %s' % v.k)
    ret = None
    for i in fn.blocks[0].insts:
        op = i.op
        what = '%s at %s' % (op, i.loc())
        if op in ('alloca', 'store', 'load', 'call', 'br'):
            if op == 'call' and i.callee and i.callee.startswith('llvm.dbg'):
                continue
            raise Unproven('%s in a SWAR formula' % op)
        if op == 'ret':
            ret = val(i.ops[0])
            break
        bits = int(i.ty[1:]) if i.ty and i.ty.startswith('i') else None
        if op in ('zext',):
            a = val(i.ops[0])
            env[i.id] = Form(bits, a.c0, a.c)
        elif op == 'trunc':
            a = val(i.ops[0]).modpow(bits, what)
            env[i.id] = Form(bits, a.c0, a.c)
        elif op in ('add', 'sub'):
            a, b = val(i.ops[0]), val(i.ops[1])
            sg = 1 if op == 'add' else -1
            keys = set(a.c) | set(b.c)
            env[i.id] = Form(bits, a.c0 + sg * b.c0, dict((k, a.c.get(k, 0) + sg * b.c.get(k, 0)) for k in keys)).check(what)
        elif op == 'lshr':
            a, b = val(i.ops[0]), val(i.ops[1])
            if b.c:
                raise Unproven('%s: variable shift' % what)
            env[i.id] = a.shr(b.c0, what)
        elif op == 'shl':
            a, b = val(i.ops[0]), val(i.ops[1])
            if b.c:
                raise Unproven('%s: variable shift' % what)
            env[i.id] = a.scale(1 << b.c0).check(what)
        elif op == 'mul':
            a, b = val(i.ops[0]), val(i.ops[1])
            if a.c and b.c:
                raise Unproven('%s: product of two input-dependent values' % what)
            f, k = (a, b.c0) if a.c else (b, a.c0)
            env[i.id] = f.scale(k).check(what)
        elif op == 'and':
            a, b = val(i.ops[0]), val(i.ops[1])
            if a.c and b.c:
                raise Unproven('%s: AND of two input-dependent values' % what)
            f, m = (a, b.c0) if a.c else (b, a.c0)
            acc = Form(bits)
            for lo, hi in _runs(m, bits):
                part = f.shr(lo, what).modpow(hi - lo, what).scale(1 << lo)
                acc = Form(bits, acc.c0 + part.c0, dict((k, acc.c.get(k, 0) + part.c.get(k, 0)) for k in set(acc.c) | set(part.c)))
            env[i.id] = acc.check(what)
        else:
            raise Unproven('operation %s is outside the bit-linear domain' % what)
    if ret is None:
        raise Unproven('no return value')
    return ret, pbits


def r_swar(ctx, prog):
    R = 'R-SWAR'
    ctx.rule(R, 'the SWAR population counts (of_popcount_3, of_hweight32) return sum of the input bits for every input: proven in the '
             'domain of integer linear forms over the input bits, every shift/mask/add/multiply discharged as carry-free', floor=1)
    for name in ('of_popcount_3', 'of_hweight32'):
        f = prog.fn(name, HW_UNIT)
        ctx.need(f is not None, R, '%s not found' % name)
        try:
            form, pbits = eval_form(f)
        except Unproven as e:
            # a formula that cannot be proven carry-free is a wrong population count for some input unless it merely left the
            # domain; tell the two apart by the returned form when one exists
            ctx.instance(R, False, f, name + ':popcount', '%s is not provably the population count: %s' % (name, e))
            continue
        ok = form.c0 == 0 and all(form.c.get(i, 0) == 1 for i in range(pbits)) and len(form.c) == pbits
        why = ''
        if not ok:
            wrong = [i for i in range(pbits) if form.c.get(i, 0) != 1]
            why = 'bit %d of the input is counted %d time(s)' % (wrong[0], form.c.get(wrong[0], 0)) if wrong else 'constant offset %d' % form.c0
        ctx.instance(R, ok, f, name + ':popcount', '%s does not return the population count of its argument: %s' % (name, why))


def r_hw32_table(ctx, prog):
    R = 'R-HW32-TABLE'
    ctx.rule(R, 'of_hweight32_table sums of_hw8table[] over the four distinct bytes of its argument; of_hweight8_table is of_hw8table[w]',
             floor=1)
    f = prog.fn('of_hweight32_table', HW_UNIT)
    ctx.need(f is not None, R, 'of_hweight32_table not found')
    ok, why = _table_sum(f, 4)
    ctx.instance(R, ok, f, 'of_hweight32_table:bytes', 'of_hweight32_table: %s' % why)
    g = prog.fn('of_hweight8_table', HW_UNIT)
    ctx.need(g is not None, R, 'of_hweight8_table not found')
    ok, why = _table_sum(g, 1)
    ctx.instance(R, ok, g, 'of_hweight8_table:byte', 'of_hweight8_table: %s' % why)


def _table_sum(f, nbytes):
    if len(f.blocks) != 1:
        return False, 'no longer straight-line code'
    slot = None
    leaves = []
    ret = None
    for i in f.blocks[0].insts:
        if i.op == 'ret':
            ret = i.ops[0]

    def byte_of(v):
        """byte offset of the argument that value v is, or None"""
        v = strip_casts(v)
        if v.k == 'a' and nbytes == 1:
            return 0
        if v.k != 'i' or v.inst.op != 'load' or v.inst.size != 1:
            return None
        p = strip_casts(v.inst.ops[0])
        off = 0
        while p.k == 'i' and p.inst.op == 'getelementptr':
            for st in p.inst.path:
                if st['kind'] not in ('ptr', 'array') or st['idxv'].k != 'c':
                    return None
                off += st['idxv'].v * st['elsize']
            p = strip_casts(p.inst.ops[0])
        if p.k != 'i' or p.inst.op != 'alloca':
            return None
        sts = [s for s in f.all_insts() if s.op == 'store' and strip_casts(s.ops[1]).k == 'i' and strip_casts(s.ops[1]).inst is p.inst]
        if len(sts) != 1 or sts[0].ops[0].k != 'a':
            return None
        return off

    def walk(v):
        v = strip_casts(v)
        if v.k == 'c' and v.v == 0:
            return True
        if v.k != 'i':
            return False
        i = v.inst
        if i.op == 'add':
            return walk(i.ops[0]) and walk(i.ops[1])
        if i.op == 'load':
            p = strip_casts(i.ops[0])
            if p.k == 'i' and p.inst.op == 'getelementptr':
                base = strip_casts(p.inst.ops[0])
                if base.k == 'g' and base.name == 'of_hw8table':
                    idx = [st['idxv'] for st in p.inst.path if st['kind'] in ('ptr', 'array')]
                    idx = [x for x in idx if not (x.k == 'c' and x.v == 0)]
                    if len(idx) == 1:
                        b = byte_of(idx[0])
                        if b is not None:
                            leaves.append(b)
                            return True
        return False
    if ret is None or not walk(ret):
        return False, 'the result is not a plain sum of of_hw8table[] entries indexed by bytes of the argument'
    if sorted(leaves) != list(range(nbytes)):
        return False, 'the table is indexed by argument bytes %s, expected each of %s once' % (sorted(leaves), list(range(nbytes)))
    return True, ''


class ArrayInterp(Interp):
    """kea.Interp plus: loads from the i32* array are data; calls of the proven popcount helpers yield weights"""
    HELPERS = {'of_popcount_3': 8, 'of_hweight32_table': 4, 'of_hweight32': 4, 'of_hweight32_naive': 4}

    def step(self, i):
        op = i.op
        if op == 'load':
            p = self.val(i.ops[0])
            if p[0] == 'ptr' and p[1] == ('arg', 0):
                self.env[i.id] = ('data', self.read(p[1], p[2], i.size, i))
                for j in range(i.size):
                    self.loadcount[p[2] + j] += 1
                return
        if op == 'call':
            if i.callee in self.HELPERS:
                a = self.val(i.args[0])
                n = self.HELPERS[i.callee]
                if a[0] != 'data' or len(a[1]) != n:
                    raise Unknown('argument of %s is not a %d-byte load' % (i.callee, n))
                w = Counter()
                for b in a[1]:
                    if len(b.hi) != 1 or len(b.lo) != 1:
                        raise Unknown('argument of %s is not an unmodified word of the array' % i.callee)
                    (h,) = b.hi
                    (l,) = b.lo
                    if h[1:] != l[1:] or h[1] != ('arg', 0):
                        raise Unknown('argument of %s mixes bytes' % i.callee)
                    w[h[2]] += 1
                self.env[i.id] = ('weight', w)
                return
            raise Unknown('call of %s' % i.callee)
        if op == 'add':
            a, b = self.val(i.ops[0]), self.val(i.ops[1])
            if a[0] == 'weight' or b[0] == 'weight':
                w = Counter()
                for x in (a, b):
                    if x[0] == 'weight':
                        w.update(x[1])
                    elif not (x[0] == 'int' and x[1] == 0):
                        raise Unknown('a weight is added to something that is neither a weight nor 0')
                self.env[i.id] = ('weight', w)
                return
        if op == 'ret':
            self.ret = self.val(i.ops[0])
            return None
        return Interp.step(self, i)

    def run(self):
        self.loadcount = Counter()
        self.ret = None
        return Interp.run(self)


def r_hw_array(ctx, prog, nsizes=3 * 64 + 2):
    R = 'R-HW-ARRAY'
    ctx.rule(R, 'of_hweight_array(array, size) reads exactly the 32-bit words holding bits [0,size), each byte once, hands each to a '
             'population-count helper exactly once and returns the plain sum (every size class of the 64-bit period)', floor=1)
    f = prog.fn('of_hweight_array', HW_UNIT)
    ctx.need(f is not None, R, 'of_hweight_array not found')
    # quasi-affinity: the size is only shifted / divided by constants whose product period is 64 bits
    bad = None
    for i in f.all_insts():
        if i.op in ('udiv', 'urem', 'sdiv', 'srem', 'lshr', 'ashr', 'shl', 'mul') and i.ops[1].k != 'c':
            bad = i
        if i.op in ('ptrtoint', 'inttoptr', 'switch'):
            bad = i
    ctx.instance(R, bad is None, bad or f, 'of_hweight_array:quasi-affine',
                 'of_hweight_array: a size-derived scalar is combined with a non-constant (%s): the finite size range no longer covers all sizes'
                 % (bad.op if bad else ''))
    fails = {}
    for size in range(0, nsizes):
        it = ArrayInterp(prog, f, dict(size=1), size, 0, rule=R)
        try:
            it.run()
        except Unknown as e:
            ctx.broken(R, 'of_hweight_array: abstract interpretation cannot follow the function (%s) for size=%d' % (e, size))
        want = 4 * ((size + 31) // 32)
        got = it.loadcount
        if set(got) != set(range(want)):
            extra = sorted(set(got) - set(range(want)))
            miss = sorted(set(range(want)) - set(got))
            fails.setdefault('extent', 'size=%d bits: reads bytes %s of the array, the words holding the bits are bytes [0,%d)%s' %
                             (size, _rng(sorted(got)), want, '; beyond the array: %s' % _rng(extra) if extra else '; not read: %s' % _rng(miss)))
        r = it.ret
        if r is None:
            fails.setdefault('sum', 'size=%d: no result' % size)
        elif r[0] == 'int' and r[1] == 0:
            if want:
                fails.setdefault('sum', 'size=%d bits: returns 0 without counting bytes [0,%d)' % (size, want))
        elif r[0] != 'weight':
            fails.setdefault('sum', 'size=%d: the result is not a sum of population counts' % size)
        else:
            w = r[1]
            wrong = [b for b in range(want) if w.get(b, 0) != 1] + [b for b in w if b >= want]
            if wrong:
                fails.setdefault('sum', 'size=%d bits: byte %d of the array is counted %d time(s)' % (size, wrong[0], w.get(wrong[0], 0)))
    for key in ('extent', 'sum'):
        ctx.instance(R, key not in fails, f, 'of_hweight_array:' + key, 'of_hweight_array: %s' % fails.get(key))
    ctx.bulk(R, nsizes)


def _rng(xs):
    if not xs:
        return '[]'
    return '[%d..%d]' % (xs[0], xs[-1]) if xs == list(range(xs[0], xs[-1] + 1)) else str(xs)
