"""C13: kernel extent analysis rule (R-KEA) over the seven symbol-arithmetic kernels, plus R-KERNEL-SHAPE (the syntactic
side condition that makes the finite range of sizes sufficient)."""
from .kea import Interp, Unknown, Byte, mem_byte, EMPTY
from .ir import strip_casts

P = 16          # largest unroll period of any kernel (bytes)
GF_KINDS = ('gf',)    # the Reed-Solomon symbol kernels
XOR_KINDS = ('xor1', 'xor-from', 'xor-to')     # the kernels the linear-binary codecs and the dense solver use

KERNELS = [
    dict(name='of_add_to_symbol', unit='of_symbol.c', kind='xor1', size=2),
    dict(name='of_add_from_multiple_symbols', unit='of_symbol.c', kind='xor-from', count=2, size=3),
    dict(name='of_add_to_multiple_symbols', unit='of_symbol.c', kind='xor-to', count=2, size=3),
    dict(name='of_addmul1', unit='of_reed-solomon_gf_2_8.c', kind='gf', c=2, size=3, table='of_gf_mul_table'),
    dict(name='of_galois_field_2_8_addmul1', unit='algebra_2_8.c', kind='gf', c=2, size=3, table='of_gf_2_8_mul_table'),
    dict(name='of_galois_field_2_4_addmul1', unit='algebra_2_4.c', kind='gf', c=2, size=3, table='of_gf_2_4_mul_table'),
    dict(name='of_galois_field_2_4_addmul1_compact', unit='algebra_2_4.c', kind='gf', c=2, size=3,
         table='of_gf_2_4_opt_mul_table', lookup='nibble'),
]


def r_kernel_shape(ctx, prog, kinds=None):
    R = 'R-KERNEL-SHAPE'
    ctx.rule(R, 'in every kernel all scalars derived from the size / operand count are built with + - and with * / mod << >> & by '
             'constants only, no address is converted to an integer, nothing is called: every extent expression is quasi-affine in '
             'the size with period dividing 16, so the finite size range analysed by R-KEA is sufficient for all sizes', floor=1)
    for sp in KERNELS:
        if kinds is not None and sp['kind'] not in kinds:
            continue
        f = prog.fn(sp['name'], sp['unit'])
        ctx.need(f is not None, R, 'kernel %s not found' % sp['name'])
        bad = None
        why = ''
        for i in f.all_insts():
            if i.op in ('ptrtoint', 'inttoptr'):
                bad, why = i, 'converts between addresses and integers (alignment-dependent behaviour)'
            elif i.op == 'call':
                from .ir import PRINT_CALLS, verbosity_regions_pure
                if i.callee in PRINT_CALLS and verbosity_regions_pure(f)[0]:
                    continue      # trace output of the OF_DEBUG build, under the trace level only (R-VERBOSITY)
                g = prog.callee_fn(i) if i.callee else None
                if g is not None and g.internal and g.unit is f.unit and _helper_shape_ok(prog, g):
                    continue      # a static helper of the unit that itself satisfies the shape conditions (R-KEA interprets it)
                bad, why = i, 'calls %s' % i.callee
            elif i.op in ('mul', 'udiv', 'sdiv', 'urem', 'srem', 'shl', 'lshr', 'ashr') and i.ty and i.ty.startswith('i'):
                if i.op in ('mul',):
                    okc = i.ops[0].k == 'c' or i.ops[1].k == 'c'
                else:
                    okc = i.ops[1].k == 'c'
                if not okc and not _is_data_op(i):
                    bad, why = i, 'non-constant %s on a size-derived scalar' % i.op
            elif i.op == 'switch':
                bad, why = i, 'switch'
        ctx.instance(R, bad is None, bad or f, sp['name'] + ':quasi-affine', '%s: %s' % (sp['name'], why))
        # constants used with / % >> & must divide the period
        consts = set()
        for i in f.all_insts():
            if i.op in ('lshr', 'ashr', 'shl') and i.ops[1].k == 'c' and not _is_data_op(i):
                consts.add(1 << i.ops[1].v)
            if i.op in ('urem', 'udiv', 'srem', 'sdiv') and i.ops[1].k == 'c':
                consts.add(abs(i.ops[1].v))
        okp = all(c and P % c == 0 for c in consts if c > 1)
        ctx.instance(R, okp, f, sp['name'] + ':period', '%s divides/shifts the size by %s: period does not divide %d' %
                     (sp['name'], sorted(consts), P))


def _helper_shape_ok(prog, g, depth=0):
    for i in g.all_insts():
        if i.op in ('ptrtoint', 'inttoptr', 'switch'):
            return False
        if i.op == 'call':
            h = prog.callee_fn(i) if i.callee else None
            if h is None or not h.internal or depth >= 1 or not _helper_shape_ok(prog, h, depth + 1):
                return False
        if i.op in ('mul', 'udiv', 'sdiv', 'urem', 'srem', 'shl', 'lshr', 'ashr') and i.ty and i.ty.startswith('i'):
            okc = (i.ops[0].k == 'c' or i.ops[1].k == 'c') if i.op == 'mul' else i.ops[1].k == 'c'
            if not okc and not _is_data_op(i):
                return False
    return True


def _is_data_op(i):
    """shift/mul whose operand is (derived from) a loaded value, not from the size"""
    seen = set()
    work = [i]
    while work:
        x = work.pop()
        if x.id in seen:
            continue
        seen.add(x.id)
        if x.op == 'load':
            return True
        for o in x.ops:
            so = strip_casts(o)
            if so.k == 'i' and so.inst.op not in ('phi',):
                work.append(so.inst)
    return False


def expected_final(sp, size, count, it):
    """byte-wise definition: {(region, off): Byte} for every destination byte"""
    kind = sp['kind']
    exp = {}
    if kind == 'xor1':
        for o in range(size):
            exp[(('arg', 0), o)] = mem_byte(('arg', 0), o).xor(mem_byte(('arg', 1), o))
    elif kind == 'xor-from':
        for o in range(size):
            b = mem_byte(('arg', 0), o)
            for k in range(count):
                b = b.xor(mem_byte(('opnd', 1, k), o))
            exp[(('arg', 0), o)] = b
    elif kind == 'xor-to':
        for k in range(count):
            for o in range(size):
                exp[(('opnd', 0, k), o)] = mem_byte(('opnd', 0, k), o).xor(mem_byte(('arg', 1), o))
    elif kind == 'gf':
        for o in range(size):
            src = mem_byte(('arg', 1), o)
            region = ('row', sp['table'], 'c', None)
            lk = _lookup(sp, src)
            exp[(('arg', 0), o)] = mem_byte(('arg', 0), o).xor(lk)
    return exp


def _lookup(sp, idx):
    if sp.get('lookup') == 'nibble':
        return Byte(frozenset([('Mul', sp['table'], 'c', idx.hi)]) if idx.hi else EMPTY,
                    frozenset([('Mul', sp['table'], 'c', idx.lo)]) if idx.lo else EMPTY)
    key = (sp['table'], 'c', idx.key())
    return Byte(frozenset([('Th',) + key]), frozenset([('Tl',) + key]))


def dst_regions(sp, count):
    if sp['kind'] == 'xor-to':
        return [('opnd', 0, k) for k in range(count)]
    return [('arg', 0)]


def src_regions(sp, count):
    if sp['kind'] == 'xor-from':
        return [('opnd', 1, k) for k in range(count)]
    return [('arg', 1)]


def r_kea(ctx, prog, sizes, counts, kinds=None):
    R = 'R-KEA'
    ctx.rule(R, 'for every size class and operand count analysed, each kernel stores exactly the bytes [0,size) of each destination, '
             'loads only bytes [0,size) of its operands and entries [0,count) of the operand table, never writes a source, and every '
             'stored byte equals the byte-wise definition (XOR of the same-offset bytes / old XOR T[c][src])', floor=1)
    total_runs = 0
    for sp in KERNELS:
        if kinds is not None and sp['kind'] not in kinds:
            continue
        f = prog.fn(sp['name'], sp['unit'])
        ctx.need(f is not None, R, 'kernel %s not found' % sp['name'])
        cs = counts if 'count' in sp else [None]
        fails = {}
        runs = 0
        for size in sizes:
            for cnt in cs:
                it = Interp(prog, f, sp, size, cnt if cnt is not None else 0)
                try:
                    it.run()
                except Unknown as e:
                    ctx.broken(R, '%s: abstract interpretation cannot follow the kernel (%s) for size=%d count=%s' %
                               (sp['name'], e, size, cnt))
                runs += 1
                c = cnt if cnt is not None else 0
                msg = _judge(sp, size, c, it)
                for k, m in msg:
                    fails.setdefault(k, m)
        total_runs += runs
        for key in ('store-extent', 'load-extent', 'source-written', 'table-extent', 'value'):
            m = fails.get(key)
            ctx.instance(R, m is None, f, '%s:%s' % (sp['name'], key), '%s: %s' % (sp['name'], m))
        ctx.bulk(R, runs)
    return total_runs


def _judge(sp, size, count, it):
    out = []
    dsts = dst_regions(sp, count)
    srcs = src_regions(sp, count)
    want = set(range(size))
    tag = 'size=%d%s' % (size, ', operands=%d' % count if 'count' in sp else '')
    effective = size if (count > 0 or 'count' not in sp) else 0
    for d in dsts:
        st = set(it.stores.get(d, {}))
        exp_st = set(range(size)) if ('count' not in sp or count > 0) else set()
        if st != exp_st:
            extra = sorted(st - exp_st)
            miss = sorted(exp_st - st)
            out.append(('store-extent', '%s: destination bytes stored %s; %s' % (
                tag, 'beyond the symbol: offsets %s' % extra[:6] if extra else 'missing: offsets %s' % miss[:6],
                'must be exactly [0, size)')))
    for region, offs in it.stores.items():
        if region not in dsts:
            out.append(('source-written', '%s: stores into %s, which is not a destination' % (tag, region)))
    for region, offs in it.loads.items():
        if region in dsts or region in srcs:
            bad = sorted(o for o in offs if o < 0 or o >= size)
            if bad:
                out.append(('load-extent', '%s: reads offsets %s of %s, outside [0, size)' % (tag, bad[:6], region)))
        elif region[0] in ('opnd',):
            out.append(('table-extent', '%s: reads operand %s, beyond the %d operands given' % (tag, region, count)))
    for region, ks in it.arr_reads.items():
        bad = sorted(k for k in ks if k < 0 or k >= count)
        if bad:
            out.append(('table-extent', '%s: reads entries %s of the operand table, beyond the %d entries given' % (tag, bad[:6], count)))
    exp = expected_final(sp, size, count, it)
    for (region, off), b in exp.items():
        got = it.mem.get((region, off), mem_byte(region, off))
        if got != b:
            out.append(('value', '%s: byte %d of %s becomes %r, the definition gives %r' % (tag, off, region, got, b)))
            break
    return out
