"""Decoding front-end rules: R-DUP, R-SETAVAIL, R-RS-THRESHOLD, R-COMPLETE, R-FINISH-TRUTH, R-RETSET."""
from .ir import norm_atom, Terms, strip_casts, const_of, atoms_at, has_atom, show, ret_sources, guards_at, returned_constants, \
    loop_range, stores_in_loop, calls_in_loop, blocks_reaching, NEG
from .effects import effects, addr_root

OK, FAILURE, ERROR, FATAL = 0, 1, 2, 3

# codec family descriptions, slots filled from the repository
RS_FAMILY = [
    dict(codec=1, name='RS-2^8', struct='of_rs_cb', dec='of_rs_decode_with_new_symbol', setav='of_rs_set_available_symbols',
         fin='of_rs_finish_decoding', complete='of_rs_is_decoding_complete', core='of_rs_decode',
         gettab='of_rs_get_source_symbols_tab'),
    dict(codec=2, name='RS-2^m', struct='of_rs_2_m_cb', dec='of_rs_2_m_decode_with_new_symbol',
         setav='of_rs_2_m_set_available_symbols', fin='of_rs_2_m_finish_decoding',
         complete='of_rs_2_m_is_decoding_complete', core='of_rs_2m_decode', gettab='of_rs_2_m_get_source_symbols_tab'),
]
LB_FAMILY = [
    dict(codec=3, name='LDPC-Staircase', struct='of_ldpc_staircase_cb', dec='of_ldpc_staircase_decode_with_new_symbol',
         setav='of_ldpc_staircase_set_available_symbols', fin='of_ldpc_staircase_finish_decoding',
         complete='of_ldpc_staircase_is_decoding_complete', gettab='of_ldpc_staircase_get_source_symbols_tab'),
    dict(codec=5, name='2D-parity', struct='of_2d_parity_cb', dec='of_2d_parity_decode_with_new_symbol',
         setav='of_2d_parity_set_available_symbols', fin='of_2d_parity_finish_decoding',
         complete='of_2d_parity_is_decoding_complete', gettab='of_2d_parity_get_source_symbols_tab'),
]
IT = 'of_linear_binary_code_decode_with_new_symbol'
ML = 'of_linear_binary_code_finish_decoding_with_ml'


def fld(prog, struct, name, base=('param', 0)):
    s = prog.distructs.get(struct)
    if s is None:
        return None
    for m in s['members']:
        if m['name'] == name:
            return ('field', base, name, m['off'])
    return None


def L(t):
    return ('load', t)


def is_field_load(t, name, base=('param', 0)):
    return t[0] in ('load', 'load@') and t[1][0] == 'field' and t[1][2] == name and (base is None or t[1][1] == base)


def slot_term(prog, struct, table, idx):
    return L(('elem', L(fld(prog, struct, table)), idx))


# ------------------------------------------------------------------ R-DUP
def r_dup(ctx, prog, codecs):
    R = 'R-DUP'
    ctx.rule(R, 'in each per-symbol decode routine every store to the symbol-table slot of the submitted ESI and to the '
             'availability counters is dominated by the "slot is NULL" edge of a test of that very slot (duplicates change nothing)',
             floor=1)
    targets = []
    for fam in RS_FAMILY:
        if fam['codec'] in codecs:
            targets.append((fam['dec'], fam['struct'], 'available_symbols_tab',
                            ['nb_available_symbols', 'nb_available_source_symbols', 'decoding_finished'], fam['name']))
    if 3 in codecs or 5 in codecs:
        targets.append((IT, 'of_linear_binary_code_cb', 'encoding_symbols_tab',
                        ['nb_source_symbol_ready', 'nb_repair_symbol_ready'], 'linear-binary IT'))
    for fname, struct, table, counters, label in targets:
        f = prog.need_fn(fname, R)
        tt = Terms(f)
        slot = slot_term(prog, struct, table, ('param', 2))
        ctx.need(fld(prog, struct, table) is not None, R, 'member %s.%s missing' % (struct, table))
        n = 0
        for i in f.all_insts():
            key = None
            if i.op == 'store':
                a = tt.term(i.ops[1])
                root = addr_root(a)
                if root == ('elems', table):
                    key = 'store:%s[]' % table
                elif root[0] == 'field' and root[1] in counters:
                    key = 'store:%s' % root[1]
                elif root[0] == 'elems' and root[1] in ('tab_nb_unknown_symbols', 'tab_nb_enc_symbols_per_equ',
                                                         'tab_nb_equ_for_repair', 'tab_const_term_of_equ'):
                    key = 'store:%s[]' % root[1]
            elif i.op == 'call' and i.callee in ('of_mod2sparse_delete',):
                key = 'call:' + i.callee
            if key is None:
                continue
            n += 1
            atoms = atoms_at(f, tt, i.block)
            ok = has_atom(atoms, 'eq', slot, ('const', 0))
            ctx.instance(R, ok, i, '%s:%s' % (fname, key),
                         '%s (%s): state update not dominated by the test "%s[esi] == NULL": a duplicate submission would be counted again'
                         % (fname, label, table))
        ctx.need(n >= 2, R, '%s: fewer than two protected state updates found' % fname)


# ------------------------------------------------------------------ R-COUNT
def r_count(ctx, prog, codecs):
    R = 'R-COUNT'
    ctx.rule(R, 'in each per-symbol decode routine the source-symbol counter is incremented by one exactly under "esi < k", the '
             'all-symbols / repair counter exactly in the complementary situation it stands for', floor=1)
    for fam in RS_FAMILY:
        if fam['codec'] not in codecs:
            continue
        f = prog.need_fn(fam['dec'], R)
        tt = Terms(f)
        k = L(fld(prog, fam['struct'], 'nb_source_symbols'))
        for cname, want in (('nb_available_source_symbols', 'src'), ('nb_available_symbols', 'all')):
            cs = [s2 for s2 in f.all_insts() if s2.op == 'store' and addr_root(tt.term(s2.ops[1])) == ('field', cname)]
            ok = len(cs) == 1
            why = 'expected exactly one update of %s, found %d' % (cname, len(cs))
            if ok:
                v = tt.term(cs[0].ops[0])
                inc = v[0] == 'bin' and v[1] == 'add' and ('const', 1) in (v[2], v[3]) and any(is_field_load(x, cname) for x in (v[2], v[3]))
                atoms = atoms_at(f, tt, cs[0].block)
                lt = has_atom(atoms, 'ult', ('param', 2), k)
                other = [a for a in atoms if a[0] == 'cmp' and ('param', 2) in (a[2], a[3]) and not
                         ((a[1] in ('ult',) and a[2] == ('param', 2) and a[3] == k) or
                          (a[1] in ('ugt',) and a[3] == ('param', 2) and a[2] == k))]       # k > esi is the same guard
                if want == 'src':
                    ok = inc and lt and not other
                    why = '%s must be incremented by one exactly when esi < nb_source_symbols (guards on esi found: %s)' % (
                        cname, [(a[1], show(a[2]), show(a[3])) for a in atoms if ('param', 2) in (a[2], a[3])])
                else:
                    ok = inc and not lt and not other
                    why = '%s must be incremented by one for every new symbol' % cname
            ctx.instance(R, ok, cs[0] if cs else f, '%s:%s' % (fam['dec'], cname), '%s: %s' % (fam['dec'], why))
    if 3 in codecs or 5 in codecs:
        f = prog.need_fn(IT, R)
        tt = Terms(f)
        k = L(fld(prog, 'of_linear_binary_code_cb', 'nb_source_symbols'))
        for cname, pred in (('nb_source_symbol_ready', 'ult'), ('nb_repair_symbol_ready', 'uge')):
            cs = [s2 for s2 in f.all_insts() if s2.op == 'store' and addr_root(tt.term(s2.ops[1])) == ('field', cname)]
            ok = len(cs) == 1
            if ok:
                atoms = atoms_at(f, tt, cs[0].block)
                ok = has_atom(atoms, pred, ('param', 2), k)
            ctx.instance(R, ok, cs[0] if cs else f, '%s:%s' % (IT, cname),
                         '%s: %s must be updated exactly under esi %s nb_source_symbols' % (IT, cname, '<' if pred == 'ult' else '>='))


# ------------------------------------------------------------------ R-IT-STEP3
def r_it_step3(ctx, prog):
    """Step 3 of the iterative decoder visits every equation registered as degree one: the loop over the work list is left
    only by its own bound or because decoding has just been reported complete."""
    R = 'R-IT-STEP3'
    ctx.rule(R, 'the loop that re-injects symbols rebuilt from degree-1 equations runs over the whole work list: its only exits are '
             'the loop bound and "decoding is complete"', floor=1)
    f = prog.need_fn(IT, R)
    tt = Terms(f)
    from .ir import out_edges, cond_atoms
    found = 0
    for lp in f.loops.values():
        if lp.depth != 1:
            continue
        # the step-3 loop is the one that contains the recursive re-injection (whatever the spelling of its bound)
        if not any(c.callee == IT for c in calls_in_loop(f, lp)):
            continue
        found += 1
        bad = None
        for b in lp.exiting:
            for s2, lab in out_edges(b):
                if s2.id in lp.blocks:
                    continue
                if b is lp.header:
                    continue
                ok = False
                if lab and lab[0] == 'br':
                    for a in cond_atoms(tt, lab[1], lab[2]):
                        if a[0] == 'cmp' and a[1] == 'ne' and a[3] == ('const', 0) and a[2][0] == 'call' and \
                                a[2][1] == 'of_is_decoding_complete':
                            ok = True
                # an exit into a block that never returns (ASSERT failure -> exit() in the OF_DEBUG build) is not an early exit
                if s2.term().op == 'unreachable' or any(c2.callee in ('exit', 'abort') for c2 in s2.insts if c2.op == 'call'):
                    ok = True
                # error exits (allocation failure) are not there in step 3 today; any other early exit drops pending equations
                if not ok:
                    bad = b.term()
        ctx.instance(R, bad is None, bad or lp.header.term(), IT + ':step3-exits',
                     'the step-3 loop can be left before the list of degree-1 equations is exhausted (exit at %s): symbols that '
                     'are determined stay undecoded, depending on the arrival order' % (bad.loc() if bad else ''))
    ctx.need(found == 1, R, 'step-3 loop (work list with recursive re-injection) not recognised (%d candidates)' % found)


# ------------------------------------------------------------------ R-SETAVAIL
def r_setavail(ctx, prog, codecs, need_order=False):
    R = 'R-SETAVAIL'
    ctx.rule(R, 'of_set_available_symbols of each codec performs, for every index 0..n-1 with a non-NULL entry, the same registration '
             'as the per-symbol routine (one loop over exactly n entries; same stores/counters or a call of the per-symbol routine '
             'with (cb, tab[i], i)); returns only OK', floor=1)
    eff = effects(prog)
    for fam in RS_FAMILY + LB_FAMILY:
        if fam['codec'] not in codecs:
            continue
        f = prog.need_fn(fam['setav'], R)
        tt = Terms(f)
        nfield = 'nb_encoding_symbols' if fam in RS_FAMILY else 'nb_total_symbols'
        loops = [l for l in f.loops.values() if l.depth == 1]
        key = fam['setav']
        if fam in LB_FAMILY and len(loops) > 1:
            _setavail_multi(ctx, prog, R, fam, f, tt, loops, need_order, eff)
            continue
        if len(loops) != 1:
            ctx.fail(R, f, key + ':loop', '%s must contain exactly one loop over the n table entries (found %d)' % (key, len(loops)))
            continue
        lp = loops[0]
        lr = loop_range(f, lp, tt)
        if lr is None:
            ctx.broken(R, '%s: loop shape not recognised' % key)
        nterm = L(fld(prog, fam['struct'], nfield))
        invariant = eff.region_may_write_field(f, lp.blocks, nfield) is None
        iv0 = tt.term(_V(lr.iv))
        order = None
        # the index visited is `iv` (ascending 0..n-1 / descending n-1..0) or `iv - 1` (for (i = n; i-- > 0;))
        idx_term = iv0
        if lr.start == ('const', 0) and lr.step == 1 and lr.pred == 'ult' and lr.bound == nterm:
            order = 'ascending'
        elif lr.start == nterm and lr.step == -1 and lr.pred in ('ugt', 'ne') and lr.bound == ('const', 0):
            order = 'descending'
            idx_term = ('bin', 'add', iv0, ('const', -1))
        elif lr.step == -1 and lr.pred == 'sge' and lr.bound == ('const', 0) and lr.start in (
                ('bin', 'sub', nterm, ('const', 1)), ('bin', 'add', nterm, ('const', -1))):
            order = 'descending'
        if order is None and lr.step == 1 and lr.pred == 'ult' and lr.bound in (('bin', 'add', nterm, lr.start), ('bin', 'add', lr.start, nterm)):
            # rotation: i = pos % n for pos in [a, a + n) visits every index exactly once, starting at a
            rot = ('bin', 'urem', iv0, nterm)
            uses = [c for c in calls_in_loop(f, lp) if c.callee in (IT, fam['dec'])]
            if uses and tt.term(uses[0].args[2]) == rot:
                order = 'rotated (starting at %s)' % show(lr.start)
                idx_term = rot
        if order is None and lr.step in (1, -1) and invariant:
            # a loop we cannot map to a visiting order of 0..n-1: do not guess
            pass
        okr = order is not None and invariant
        ctx.instance(R, okr, lr.cmp, key + ':range',
                     '%s visits "%s"; both submission APIs must see all n = %s entries exactly once (bound not modified in the loop)'
                     % (key, lr.describe(), nfield))
        if need_order and fam in LB_FAMILY:
            ctx.instance(R, order == 'ascending', lr.cmp, key + ':order',
                         '%s submits the table in %s order: a source symbol submitted after the repair symbols that determine it is '
                         'treated as a duplicate of a decoded one (its pointer is dropped, the callback fires for a received symbol)'
                         % (key, order))
        iv = idx_term
        tab_i = L(('elem', ('param', 1), iv))
        if fam in RS_FAMILY:
            table = 'available_symbols_tab'
            # store table[i] = tab[i]
            st = [s for s in stores_in_loop(f, lp) if addr_root(tt.term(s.ops[1])) == ('elems', table)]
            ok = len(st) == 1 and tt.term(st[0].ops[1]) == ('elem', L(fld(prog, fam['struct'], table)), iv) and \
                tt.term(st[0].ops[0]) == tab_i
            ctx.instance(R, ok, st[0] if st else f, key + ':slot',
                         '%s must store the caller\'s pointer tab[i] itself into %s[i] for every i' % (key, table))
            for cname, need_src in (('nb_available_symbols', False), ('nb_available_source_symbols', True)):
                # the loop overwrites every slot of the table, so the counters restart from zero
                resets = [s for s in f.all_insts() if s.op == 'store' and addr_root(tt.term(s.ops[1])) == ('field', cname)
                          and const_of(s.ops[0]) == 0 and s.block.id not in lp.blocks and f.bdom(s.block, lp.header)]
                ctx.instance(R, bool(resets), lr.cmp, key + ':' + cname + ':reset',
                             '%s overwrites all n table slots but does not restart %s from 0: after an earlier submission the counter '
                             'no longer equals the number of available symbols' % (key, cname))
                cs = [s for s in stores_in_loop(f, lp) if addr_root(tt.term(s.ops[1])) == ('field', cname)]
                ok = len(cs) == 1
                why = 'exactly one increment of %s in the loop' % cname
                if ok:
                    s = cs[0]
                    v = tt.term(s.ops[0])
                    ok = v[0] == 'bin' and v[1] == 'add' and ('const', 1) in (v[2], v[3]) and \
                        any(is_field_load(x, cname) for x in (v[2], v[3]))
                    atoms = atoms_at(f, tt, s.block)
                    nn = has_atom(atoms, 'ne', tab_i, ('const', 0))
                    # the NULL test may be made on the value just stored (store-then-test idiom)
                    if not nn:
                        nn = any(a[0] == 'cmp' and a[1] == 'ne' and a[3] == ('const', 0) and
                                 a[2] in (tab_i, L(('elem', L(fld(prog, fam['struct'], table)), iv))) for a in atoms)
                    src = has_atom(atoms, 'ult', iv, L(fld(prog, fam['struct'], 'nb_source_symbols')))
                    ok = ok and nn and (src if need_src else not src)
                    why = '%s++ must happen exactly for non-NULL entries%s' % (cname, ' with i < nb_source_symbols' if need_src else '')
                ctx.instance(R, ok, cs[0] if cs else f, key + ':' + cname, '%s: %s' % (key, why))
        else:
            calls = [c for c in calls_in_loop(f, lp) if c.callee and prog.callee_fn(c) is not None]
            per = [c for c in calls if c.callee in (IT, fam['dec'])]
            ok = len(per) == 1
            if ok:
                c = per[0]
                args = [tt.term(a) for a in c.args]
                ok = args[0] == ('param', 0) and args[1] == tab_i and args[2] == iv
                atoms = atoms_at(f, tt, c.block)
                ok = ok and has_atom(atoms, 'ne', tab_i, ('const', 0))
                # ... and nothing else decides whether an entry is registered (no entry is skipped on other grounds)
                hdr_atoms = [norm_atom(a) for a in atoms_at(f, tt, lp.header)]
                extra = []
                for a in atoms:
                    a = norm_atom(a)
                    if a in hdr_atoms or a[0] != 'cmp':
                        continue
                    if a[2] == tab_i or a[3] == tab_i:
                        continue
                    if _mentions(a, iv) and (a[2] == nterm or a[3] == nterm or _mentions(a, lr.bound)) and a[1] in ('ult', 'ule', 'ugt', 'uge', 'slt', 'sle', 'sgt', 'sge', 'ne'):
                        continue        # the loop's own bound
                    extra.append(a)
                # the same as a path condition (a skip written `if (A && B) continue;` leaves no dominating atom): from the
                # "entry is not NULL" edge every path to the next iteration passes the registration
                from .ir import out_edges as _oe, cond_atoms as _ca
                for b2 in f.blocks:
                    if b2.id not in lp.blocks:
                        continue
                    for s3, lab3 in _oe(b2):
                        if lab3 is None or lab3[0] != 'br' or s3.id not in lp.blocks:
                            continue
                        if any(norm_atom(a3) == ('cmp', 'ne', tab_i, ('const', 0)) for a3 in _ca(tt, lab3[1], lab3[2])):
                            rem3 = [(c.block.id, x.id) for x in c.block.succs]
                            r3 = f.reachable(s3, removed=rem3, stop=[lp.header])
                            if s3.id != c.block.id and any(l3.id in r3 for l3 in lp.latches):
                                extra.append(('cmp', 'path', ('const', 0), ('const', 0)))
                ctx.instance(R, not extra, c, key + ':only-null-skipped',
                             '%s skips table entries on a condition other than "entry is NULL" (%s): a received symbol is not handed to '
                             'the decoder, so the outcome depends on the submission API' %
                             (key, '; '.join(('a path from the non-NULL test to the next iteration bypasses the registration' if a[1] == 'path' else '%s %s %s' % (show(a[2])[:40], a[1], show(a[3])[:30])) for a in extra)))
            ctx.instance(R, ok, per[0] if per else f, key + ':register',
                         '%s must hand every non-NULL tab[i] to the per-symbol decoding routine as (cb, tab[i], i); it %s' %
                         (key, 'does not call it' if not per else 'calls it with other arguments or unguarded'))
            # nothing else may write the symbol table here
            for s in stores_in_loop(f, lp):
                if addr_root(tt.term(s.ops[1])) == ('elems', 'encoding_symbols_tab'):
                    ctx.fail(R, s, key + ':copy',
                             '%s stores %s into encoding_symbols_tab[] itself instead of registering the symbol with the decoder' %
                             (key, show(tt.term(s.ops[0]))))
        rc = returned_constants(prog, f)
        ctx.instance(R, rc == set([OK]), f, key + ':ret', '%s may return %s; on conforming use it returns only OF_STATUS_OK' % (key, sorted(map(str, rc))))


def _mentions(a, t):
    def walk(x):
        if x == t:
            return True
        return isinstance(x, tuple) and any(walk(y) for y in x[1:] if isinstance(y, tuple))
    return walk(a)


def _setavail_multi(ctx, prog, R, fam, f, tt, loops, need_order, eff):
    """Several loops (e.g. repair symbols first, then source symbols): their ascending ranges must partition 0..n-1 and each must
    register (cb, tab[i], i) for the non-NULL entries."""
    key = fam['setav']
    st = fam['struct']
    kterm = L(fld(prog, st, 'nb_source_symbols'))
    nterm = L(fld(prog, st, 'nb_total_symbols'))
    rank = {('const', 0): 0, kterm: 1, nterm: 2}
    pieces = []
    okall = True
    for lp in loops:
        lr = loop_range(f, lp, tt)
        if lr is None or lr.step != 1 or lr.pred != 'ult' or lr.start not in rank or lr.bound not in rank:
            okall = False
            continue
        iv = tt.term(_V(lr.iv))
        tab_i = L(('elem', ('param', 1), iv))
        per = [c for c in calls_in_loop(f, lp) if c.callee in (IT, fam['dec'])]
        good = len(per) == 1
        if good:
            args = [tt.term(a) for a in per[0].args]
            good = args[0] == ('param', 0) and args[1] == tab_i and args[2] == iv and \
                has_atom(atoms_at(f, tt, per[0].block), 'ne', tab_i, ('const', 0))
        okall = okall and good
        pieces.append((rank[lr.start], rank[lr.bound], lp.header.id))
    cover = sorted(p[:2] for p in pieces)
    part = okall and cover and cover[0][0] == 0 and cover[-1][1] == 2 and all(cover[i][1] == cover[i + 1][0] for i in range(len(cover) - 1))
    ctx.instance(R, bool(part), f, key + ':range',
                 '%s uses %d loops whose ranges do not partition 0 .. n-1 with a registration of every non-NULL entry' % (key, len(loops)))
    if need_order:
        # program order of the loops must be ascending in ESI
        order = [p for p in sorted(pieces, key=lambda p: f.bmap[p[2]].din)]
        asc = all(order[i][1] <= order[i + 1][0] for i in range(len(order) - 1))
        ctx.instance(R, asc, f, key + ':order',
                     '%s submits repair symbols before (some) source symbols: a source symbol submitted after the repair symbols that '
                     'determine it is treated as a duplicate of a decoded one (its pointer is dropped, the callback fires for a '
                     'received symbol)' % key)
    rc = returned_constants(prog, f)
    ctx.instance(R, rc == set([OK]), f, key + ':ret', '%s may return %s' % (key, sorted(map(str, rc))))


class _V(object):
    """minimal operand wrapper for an instruction"""
    def __init__(self, inst):
        self.k = 'i'
        self.inst = inst
        self.idx = inst.id


# ------------------------------------------------------------------ R-RS-THRESHOLD
def r_rs_threshold(ctx, prog, codecs):
    R = 'R-RS-THRESHOLD'
    ctx.rule(R, 'RS finish_decoding runs the matrix decoder only with nb_available_symbols >= k; with fewer it returns FAILURE and '
             'does not mark the session finished; the per-symbol routine triggers finish_decoding only once k symbols are known',
             floor=1)
    for fam in RS_FAMILY:
        if fam['codec'] not in codecs:
            continue
        f = prog.need_fn(fam['fin'], R)
        tt = Terms(f)
        st = fam['struct']
        nav = L(fld(prog, st, 'nb_available_symbols'))
        k = L(fld(prog, st, 'nb_source_symbols'))
        cores = [c for c in f.calls(fam['core'])]
        ctx.need(cores, R, '%s no longer calls %s' % (fam['fin'], fam['core']))
        for c in cores:
            atoms = atoms_at(f, tt, c.block)
            ok = has_atom(atoms, 'uge', nav, k) or has_atom(atoms, 'eq', nav, k) or has_atom(atoms, 'ugt', nav, k)
            ctx.instance(R, ok, c, fam['fin'] + ':decode-guard',
                         '%s calls %s without the dominating check nb_available_symbols >= nb_source_symbols' % (fam['fin'], fam['core']))
        # FAILURE is returned exactly under "fewer than k": every non-error FAILURE return lies under nav < k, and nav < k leads
        # only to FAILURE returns without touching the flag
        okf = True
        bad = None
        nfail = 0
        for v, src, r in nonerror_returns(prog, f):
            atoms = atoms_at(f, tt, src)
            below = has_atom(atoms, 'ult', nav, k)
            if const_of(v) == FAILURE:
                nfail += 1
                if not below:
                    okf, bad = False, r
            elif below:
                okf, bad = False, r
        for i in f.all_insts():
            if i.op == 'store' and addr_root(tt.term(i.ops[1])) == ('field', 'decoding_finished'):
                if has_atom(atoms_at(f, tt, i.block), 'ult', nav, k):
                    okf, bad = False, i
        ctx.instance(R, okf and nfail >= 1, bad or f, fam['fin'] + ':below-k',
                     '%s: OF_STATUS_FAILURE must be returned exactly when fewer than k symbols are available (nb_available_symbols < '
                     'nb_source_symbols), and then the session must not be marked finished' % fam['fin'])
        # trigger in the per-symbol routine
        g = prog.need_fn(fam['dec'], R)
        gt = Terms(g)
        cs = [c for c in g.calls(fam['fin'])]
        ctx.need(cs, R, '%s no longer triggers %s' % (fam['dec'], fam['fin']))
        for c in cs:
            ok = has_atom(atoms_at(g, gt, c.block), 'uge', nav, k)
            ctx.instance(R, ok, c, fam['dec'] + ':trigger',
                         '%s triggers decoding without nb_available_symbols >= nb_source_symbols' % fam['dec'])
        # and the trigger exists on the path where the k-th symbol arrives: the call block is reachable from the counter update
        incs = [i for i in g.all_insts() if i.op == 'store' and addr_root(gt.term(i.ops[1])) == ('field', 'nb_available_symbols')]
        ok = bool(incs) and all(cs[0].block.id in g.reachable(i.block) for i in incs)
        ctx.instance(R, ok, cs[0], fam['dec'] + ':trigger-after-count',
                     '%s: the decode trigger must be reachable after the availability counter is incremented' % fam['dec'])


# ------------------------------------------------------------------ R-COMPLETE
def r_complete(ctx, prog, codecs):
    R = 'R-COMPLETE'
    ctx.rule(R, '(a) RS: decoding_finished is only ever set to true, under nb_available_source_symbols == k or after a successful '
             'matrix decode, and is what is_decoding_complete returns; (b) LDPC/2D: is_decoding_complete returns true only when the '
             'scan over 0..k-1 found no NULL slot, and its cursor only advances past non-NULL slots; (c) no source-table slot is '
             'ever reset to NULL outside release', floor=1)
    for fam in RS_FAMILY:
        if fam['codec'] not in codecs:
            continue
        st = fam['struct']
        nsrc = L(fld(prog, st, 'nb_available_source_symbols'))
        k = L(fld(prog, st, 'nb_source_symbols'))
        unit = prog.need_fn(fam['fin'], R).unit
        n = 0
        for f in unit.functions.values():
            if f.name.endswith('create_codec_instance'):
                continue
            tt = Terms(f)
            for i in f.all_insts():
                if i.op != 'store' or addr_root(tt.term(i.ops[1])) != ('field', 'decoding_finished'):
                    continue
                n += 1
                atoms = atoms_at(f, tt, i.block)
                ok = const_of(i.ops[0]) == 1
                allsrc = has_atom(atoms, 'eq', nsrc, k)
                decoded = any(a[0] == 'cmp' and a[1] == 'eq' and a[3] == ('const', 0) and a[2][0] == 'call' and a[2][1] == fam['core']
                              for a in atoms)
                ctx.instance(R, ok and (allsrc or decoded), i, '%s:finished-store' % f.name,
                             '%s: decoding_finished must only be set to true, and only when all k source symbols are available '
                             '(nb_available_source_symbols == k) or %s returned OK' % (f.name, fam['core']))
        ctx.need(n >= 2, R, '%s: fewer than two stores to decoding_finished' % fam['name'])
        # the converse: whenever the source counter may have grown, "all k sources available" is tested before returning and the
        # flag set on its true edge (both submission routines), so that is_decoding_complete is true as soon as they are
        for g in unit.functions.values():
            gt = Terms(g)
            incs = [i for i in g.all_insts() if i.op == 'store' and addr_root(gt.term(i.ops[1])) == ('field', 'nb_available_source_symbols')
                    and gt.term(i.ops[0])[0] == 'bin']
            if not incs:
                continue
            tests = {}
            for b in g.blocks:
                for s2, lab in __import__('ofverif.ir', fromlist=['out_edges']).out_edges(b):
                    if lab and lab[0] == 'br':
                        for a in __import__('ofverif.ir', fromlist=['cond_atoms']).cond_atoms(gt, lab[1], lab[2]):
                            if a[0] == 'cmp' and a[1] == 'eq' and set([a[2], a[3]]) == set([nsrc, k]):
                                tests[b.id] = s2
            bad = None
            for inc in incs:
                reach = g.reachable(inc.block, stop=[g.bmap[t] for t in tests])
                for r in g.rets():
                    if r.block.id in reach and r.block.id not in tests:
                        bad = inc
            for tb, true_succ in tests.items():
                sets_blocks = [i.block for i in g.all_insts() if i.op == 'store' and
                               addr_root(gt.term(i.ops[1])) == ('field', 'decoding_finished') and const_of(i.ops[0]) == 1]
                reach = g.reachable(true_succ, stop=sets_blocks)
                if any(r.block.id in reach and r.block not in sets_blocks for r in g.rets()):
                    bad = g.bmap[tb].term()
            ctx.instance(R, bad is None, bad or g, '%s:all-sources-implies-finished' % g.name,
                         '%s updates nb_available_source_symbols but can return without testing whether all k source symbols are now '
                         'available and setting decoding_finished: of_is_decoding_complete stays false although every source symbol '
                         'is available' % g.name)
        f = prog.need_fn(fam['complete'], R)
        tt = Terms(f)
        rs = ret_sources(f)
        ok = len(rs) == 1 and _is_flag(tt.term(rs[0][0]), 'decoding_finished')
        ctx.instance(R, ok, f, fam['complete'] + ':returns-flag', '%s must return exactly the decoding_finished flag' % fam['complete'])
    for fam in LB_FAMILY:
        if fam['codec'] not in codecs:
            continue
        st = fam['struct']
        f = prog.need_fn(fam['complete'], R)
        tt = Terms(f)
        cur = L(fld(prog, st, 'first_non_decoded'))
        k = L(fld(prog, st, 'nb_source_symbols'))
        slot = L(('elem', L(fld(prog, st, 'encoding_symbols_tab')), cur))
        for v, chain, r in ret_sources(f):
            src = f.bmap[chain[0][0]] if chain else r.block
            atoms = atoms_at(f, tt, src)
            c = const_of(v)
            if c == 1:
                ok = has_atom(atoms, 'uge', cur, k)
                ctx.instance(R, ok, r, fam['complete'] + ':true',
                             '%s returns true on a path where first_non_decoded >= nb_source_symbols is not established' % fam['complete'])
            elif c == 0:
                ok = has_atom(atoms, 'eq', slot, ('const', 0)) and has_atom(atoms, 'ult', cur, k)
                ctx.instance(R, ok, r, fam['complete'] + ':false',
                             '%s returns false without having found a NULL source slot below k' % fam['complete'])
            else:
                ctx.fail(R, r, fam['complete'] + ':value', '%s returns a non-constant' % fam['complete'])
        # cursor only advances past non-NULL slots, everywhere in the program
        n = 0
        for g in prog.all_functions:
            if g.name.endswith('create_codec_instance'):
                continue
            gt = Terms(g)
            for i in g.all_insts():
                if i.op == 'store' and addr_root(gt.term(i.ops[1])) == ('field', 'first_non_decoded'):
                    base = gt.term(i.ops[1])[1]
                    if g.params and not (g.params[0]['ty'].startswith('%struct.' + st + '*')):
                        continue
                    n += 1
                    v = gt.term(i.ops[0])
                    curg = L(('field', base, 'first_non_decoded', gt.term(i.ops[1])[3]))
                    inc = v[0] == 'bin' and v[1] == 'add' and ('const', 1) in (v[2], v[3]) and curg in (v[2], v[3])
                    atoms = atoms_at(g, gt, i.block)
                    slotg = L(('elem', L(fld(prog, st, 'encoding_symbols_tab', base)), curg))
                    ok = inc and has_atom(atoms, 'ne', slotg, ('const', 0))
                    ctx.instance(R, ok, i, '%s:cursor' % g.name,
                                 '%s: first_non_decoded may only be advanced by one past a slot just seen non-NULL' % g.name)
        ctx.need(n >= 1, R, 'no update of first_non_decoded found for %s' % st)
    # (c) monotonic tables
    tables = []
    if any(f['codec'] in codecs for f in RS_FAMILY):
        tables.append('available_symbols_tab')
    if any(f['codec'] in codecs for f in LB_FAMILY):
        tables.append('encoding_symbols_tab')
    for g in prog.all_functions:
        gt = Terms(g)
        for i in g.all_insts():
            if i.op == 'store':
                root = addr_root(gt.term(i.ops[1]))
                if root[0] == 'elems' and root[1] in tables and const_of(i.ops[0]) == 0:
                    ok = g.name.endswith('release_codec_instance')
                    ctx.instance(R, ok, i, '%s:reset-slot' % g.name,
                                 '%s stores NULL into a symbol-table slot: an available symbol becomes unavailable again' % g.name)


def _is_flag(t, name):
    # load, possibly through "!= 0" / zext shapes
    while t[0] == 'cmp' and t[1] == 'ne' and t[3] == ('const', 0):
        t = t[2]
    return is_field_load(t, name)


# ------------------------------------------------------------------ error edges / R-RETSET / R-FINISH-TRUTH
ALLOC_NAMES = set(['malloc', 'calloc', 'realloc', 'of_malloc', 'of_calloc', 'of_realloc', 'of_my_malloc'])


def error_only_callee(prog, g, memo=None):
    """E2: the callee's non-OK returns are only ERROR/FATAL (so testing its result != OK is an error edge)."""
    rc = returned_constants(prog, g)
    return rc <= set([OK, ERROR, FATAL])


def is_error_atom(prog, fn, atom):
    """Does this atom (known on a path) identify the path as an error edge (E1, E2)?"""
    if atom[0] != 'cmp':
        return False
    pred, a, b = atom[1], atom[2], atom[3]
    if b != ('const', 0):
        return False
    # E1: allocator result == NULL (possibly through the field/slot it was just stored to is not tracked: direct only)
    if pred == 'eq' and a[0] == 'call' and a[1] in ALLOC_NAMES:
        return True
    # E2: status of an error-only callee != OK
    if pred == 'ne' and a[0] == 'call':
        g = prog.fn(a[1], fn.unit)
        if g is not None and g.ret == 'i32' and error_only_callee(prog, g):
            return True
    return False


def _alloc_like(tt, fn, v, depth=0):
    """value term is the result of an allocator or of an application callback (indirect call), or a phi of those"""
    if v[0] == 'call' and v[1] in ALLOC_NAMES:
        return True
    if v[0] == 'icall':
        return True
    if v[0] == 'phi' and depth < 4:
        phi = fn.insts[v[1]]
        return all(_alloc_like(tt, fn, tt.term(x), depth + 1) for x in phi.ops)
    return False


def edge_is_error(prog, fn, tt, src, lab):
    """E1/E2 classification of one CFG edge from its own branch condition."""
    from .ir import cond_atoms
    if lab is None or lab[0] != 'br':
        return False
    for a in cond_atoms(tt, lab[1], lab[2]):
        if is_error_atom(prog, fn, a):
            return True
        if a[0] == 'cmp' and a[1] == 'ne' and a[3] == ('const', 0) and a[2][0] == 'call':
            # E2': the callee's non-error non-OK returns are all excluded by what the caller knows at the call site
            g = prog.fn(a[2][1], fn.unit)
            call = fn.insts.get(a[2][2])
            if g is not None and call is not None and g is not fn and _nonok_excluded(prog, fn, tt, call, g):
                return True
        if a[0] == 'cmp' and a[1] == 'eq' and a[3] == ('const', 0):
            x = a[2]
            if _alloc_like(tt, fn, x):
                return True
            if x[0] in ('load', 'load@'):
                # E1 through memory: the location tested was last assigned an allocator / callback result
                reach = blocks_reaching(fn, [src])
                st = [s2 for s2 in tt.stores_by_addr().get(x[1], []) if s2.block.id in reach]
                if st and all(_alloc_like(tt, fn, tt.term(s2.ops[0])) for s2 in st):
                    return True
        # a group test "a == NULL || b == NULL" arrives as single-atom edges: handled one by one above
    return False


def subst_params(t, args):
    if not isinstance(t, tuple):
        return t
    if t[0] == 'param':
        return args[t[1]] if t[1] < len(args) else t
    return tuple(subst_params(x, args) if isinstance(x, tuple) else x for x in t)


def _nonok_excluded(prog, fn, tt, call, g):
    gt = Terms(g)
    args = [tt.term(a) for a in call.args]
    known = atoms_at(fn, tt, call.block)
    rets = nonerror_returns(prog, g)
    any_nonok = False
    for v, src, r in rets:
        c = const_of(v)
        if c == OK:
            continue
        if c is None:
            return False
        any_nonok = True
        excluded = False
        for a in atoms_at(g, gt, src):
            if a[0] != 'cmp':
                continue
            ta, tb = subst_params(a[2], args), subst_params(a[3], args)
            if has_atom(known, NEG[a[1]], ta, tb):
                excluded = True
                break
        if not excluded:
            return False
    return True


def error_free_reach(prog, fn):
    """Blocks reachable from entry when every error edge (E1 allocation failure, E2 error status of an error-only
    callee) is removed from the CFG."""
    cache = fn.__dict__.setdefault('_errfree', None)
    if cache is not None:
        return cache
    from .ir import out_edges
    tt = Terms(fn)
    removed = []
    for b in fn.blocks:
        for s2, lab in out_edges(b):
            if edge_is_error(prog, fn, tt, b, lab):
                removed.append((b.id, s2.id))
    r = fn.reachable(fn.entry, removed=removed)
    # E5: a test of a status / flag kept in a local (`st = helper(...); if (st != OK) goto error` once the helper is expanded in
    # place) is an error edge when the tested value can only arrive along error edges already removed.  Fixpoint.
    from .ir import phi_atom_impossible, cond_atoms
    changed = True
    while changed:
        changed = False
        rem = set(removed)
        for b in fn.blocks:
            if b.id not in r:
                continue
            for s2, lab in out_edges(b):
                if lab is None or lab[0] != 'br' or (b.id, s2.id) in rem:
                    continue
                if any(phi_atom_impossible(fn, tt, a, rem, r) for a in cond_atoms(tt, lab[1], lab[2])):
                    removed.append((b.id, s2.id))
                    rem.add((b.id, s2.id))
                    changed = True
        if changed:
            r = fn.reachable(fn.entry, removed=removed)
    fn.__dict__['_errfree'] = (r, removed)
    return r, removed


def nonerror_returns(prog, fn):
    """[(value V, origin block, ret)] for return sources that can be reached without crossing an error edge."""
    reach, removed = error_free_reach(prog, fn)
    rem = set(removed)
    out = []
    for v, chain, r in ret_sources(fn):
        src = fn.bmap[chain[0][0]] if chain else r.block
        if src.id not in reach:
            continue
        # the phi edge itself (origin -> phi block) may be an error edge
        if chain and (chain[0][0], chain[0][1]) in rem:
            continue
        out.append((v, src, r))
    return out


def r_retset(ctx, prog, codecs):
    R = 'R-RETSET'
    ctx.rule(R, 'with error edges (allocation failure, error status of a callee) removed, decode_with_new_symbol and '
             'set_available_symbols return only OK and finish_decoding only OK or FAILURE', floor=1)
    todo = []
    for fam in RS_FAMILY + LB_FAMILY:
        if fam['codec'] not in codecs:
            continue
        todo.append((fam['dec'], set([OK])))
        todo.append((fam['setav'], set([OK])))
        todo.append((fam['fin'], set([OK, FAILURE])))
    if 3 in codecs or 5 in codecs:
        todo.append((IT, set([OK])))
        todo.append((ML, set([OK, FAILURE])))
    for name, allowed in todo:
        f = prog.need_fn(name, R)
        for v, src, r in nonerror_returns(prog, f):
            c = const_of(v)
            if c is None:
                sv = strip_casts(v)
                if sv.k == 'i' and sv.inst.op == 'call' and sv.inst.callee and prog.callee_fn(sv.inst) is not None:
                    continue         # return g(...): g is in the list itself
                ctx.fail(R, r, name + ':nonconst', '%s returns a value that is not a status constant' % name)
                continue
            ctx.instance(R, c in allowed, r, '%s:ret%d' % (name, c),
                         '%s can return status %d on a path that is not an error edge (allowed: %s)' % (name, c, sorted(allowed)))


def r_finish_truth(ctx, prog, codecs):
    R = 'R-FINISH-TRUTH'
    ctx.rule(R, 'of_finish_decoding returns OK only on paths where decoding is complete afterwards and FAILURE only on paths where it '
             'is not (error edges removed)', floor=1)
    for fam in RS_FAMILY:
        if fam['codec'] not in codecs:
            continue
        f = prog.need_fn(fam['fin'], R)
        tt = Terms(f)
        flag = L(fld(prog, fam['struct'], 'decoding_finished'))
        sets = [i for i in f.all_insts() if i.op == 'store' and addr_root(tt.term(i.ops[1])) == ('field', 'decoding_finished')]
        for v, src, r in nonerror_returns(prog, f):
            c = const_of(v)
            atoms = atoms_at(f, tt, src)
            if c == OK:
                ok = has_atom(atoms, 'ne', flag, ('const', 0)) or \
                    any(const_of(s.ops[0]) == 1 and (f.bdom(s.block, src)) for s in sets)
                ctx.instance(R, ok, r, fam['fin'] + ':ok-implies-complete',
                             '%s returns OK on a path where decoding_finished is neither already true nor set' % fam['fin'])
            elif c == FAILURE:
                reach = blocks_reaching(f, [src])
                ok = has_atom(atoms, 'eq', flag, ('const', 0)) and not any(s.block.id in reach for s in sets)
                ctx.instance(R, ok, r, fam['fin'] + ':failure-implies-incomplete',
                             '%s returns FAILURE on a path where the session may be complete' % fam['fin'])
    if 3 in codecs or 5 in codecs:
        f = prog.need_fn(ML, R)
        tt = Terms(f)
        # calls that may change the symbol table / completion state
        eff = effects(prog)
        updaters = [c for c in f.calls() if c.callee and prog.callee_fn(c) is not None and
                    (eff.may_write_elems(prog.callee_fn(c), 'encoding_symbols_tab'))]
        direct = [i for i in f.all_insts() if i.op == 'store' and addr_root(tt.term(i.ops[1])) == ('elems', 'encoding_symbols_tab')]
        nfail = 0
        for v, src, r in nonerror_returns(prog, f):
            c = const_of(v)
            if c != FAILURE:
                continue
            nfail += 1
            atoms = atoms_at(f, tt, src)
            tests = [a for a in atoms if a[0] == 'cmp' and a[2][0] == 'call' and a[2][1] == 'of_is_decoding_complete'
                     and ((a[1] == 'eq' and a[3] == ('const', 0)))]
            ok = False
            for a in tests:
                call = f.insts[a[2][2]]
                # no table update between the completion test and this return
                later = [u for u in updaters + direct if u is not call and _can_follow(f, call, u) and _can_reach_block(f, u, src)]
                if not later:
                    ok = True
            ctx.instance(R, ok, r, ML + ':failure-implies-incomplete',
                         '%s returns OF_STATUS_FAILURE on a path that does not pass the false edge of a completion test '
                         '(of_is_decoding_complete) made after the last symbol-table update: a session that is (already) complete '
                         'is reported as failed' % ML)
        ctx.need(nfail >= 1, R, '%s has no FAILURE return' % ML)
        # OK direction: complete by test, or after a successful solve followed by the write-back over all k source slots
        wb = None
        for lp in f.loops.values():
            lr = loop_range(f, lp, tt)
            if lr is None or lr.start != ('const', 0) or lr.step != 1 or not is_field_load(lr.bound, 'nb_source_symbols'):
                continue
            iv = tt.term(_V(lr.iv))
            for s2 in stores_in_loop(f, lp):
                a = tt.term(s2.ops[1])
                if addr_root(a) == ('elems', 'encoding_symbols_tab') and a[2] == iv:
                    wb = lp
        nok = 0
        for v, src, r in nonerror_returns(prog, f):
            if const_of(v) != OK:
                continue
            nok += 1
            atoms = atoms_at(f, tt, src)
            complete = any(a[0] == 'cmp' and a[1] == 'ne' and a[3] == ('const', 0) and a[2][0] == 'call' and
                           a[2][1] == 'of_is_decoding_complete' for a in atoms)
            solved = any(a[0] == 'cmp' and a[1] == 'eq' and a[3] == ('const', 0) and a[2][0] == 'call' and
                         a[2][1] == 'of_linear_binary_code_solve_dense_system' for a in atoms)
            after_wb = wb is not None and f.bdom(wb.header, src) and src.id not in wb.blocks
            ctx.instance(R, complete or (solved and after_wb), r, ML + ':ok-implies-complete',
                         '%s returns OF_STATUS_OK on a path that neither passed a positive completion test nor a successful solve '
                         'followed by the write-back of all k source slots' % ML)
        ctx.need(nok >= 1, R, '%s has no OK return' % ML)


def _can_follow(fn, a, b):
    """instruction b can execute after instruction a"""
    if a.block is b.block:
        if b.pos > a.pos:
            return True
        return a.block.id in fn.reachable(a.block) and any(a.block.id in fn.reachable(s) for s in a.block.succs)
    return b.block.id in fn.reachable(a.block)


def _can_reach_block(fn, a, blk):
    return blk.id in fn.reachable(a.block)
