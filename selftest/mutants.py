"""Mutation catalogue for the checker's self-test.  Each entry edits a scratch copy of /repo; `expect` is the
exit code the owning check must give (1 = VIOLATION naming `rule`; 0 = behaviour-preserving edit, must stay silent)."""
RAND = 'src/lib_common/of_rand.c'
A28H = 'src/lib_stable/reed-solomon_gf_2_m/galois_field_codes_utils/algebra_2_8.h'
A24H = 'src/lib_stable/reed-solomon_gf_2_m/galois_field_codes_utils/algebra_2_4.h'
RS8 = 'src/lib_stable/reed-solomon_gf_2_8/of_reed-solomon_gf_2_8.c'


def M(name, props, file, old, new, rule=None, expect=1, count=1):
    return dict(name=name, props=props if isinstance(props, list) else [props], rule=rule, expect=expect,
                edits=[dict(file=file, old=old, new=new, count=count)])


MUTANTS = [
    # ---- C19
    M('prng-16808', 'C19', RAND, 'hi = 16807 * (of_seed >> 16);', 'hi = 16808 * (of_seed >> 16);', 'R-PRNG-STEP'),
    M('prng-shift16', 'C19', RAND, 'lo += hi >> 15;', 'lo += hi >> 16;', 'R-PRNG-STEP'),
    M('prng-mask', 'C19', RAND, '(hi & 0x7FFF) << 16', '(hi & 0x3FFF) << 16', 'R-PRNG-STEP'),
    M('prng-ge', 'C19', RAND, 'if (lo > 0x7FFFFFFF)', 'if (lo >= 0x7FFFFFFE)', 'R-PRNG-STEP'),
    M('prng-modulo-scale', 'C19', RAND, '( (double) of_seed * (double) maxv / (double) 0x7FFFFFFF));', '(of_seed % maxv));', 'R-FPSCALE'),
    M('prng-reassoc', 'C19', RAND, '( (double) of_seed * (double) maxv / (double) 0x7FFFFFFF));',
      '( (double) maxv / (double) 0x7FFFFFFF * (double) of_seed));', 'R-FPSCALE'),
    M('srand-ge0', 'C19', RAND, 'if ( (s >= 1) && (s <= 0x7FFFFFFE))', 'if ( (s >= 0) && (s <= 0x7FFFFFFE))', 'R-SEEDRANGE'),
    M('srand-le', 'C19', RAND, '(s <= 0x7FFFFFFE))', '(s <= 0x7FFFFFFF))', 'R-SEEDRANGE'),
    M('benign-srand-gt0', 'C19', RAND, 'if ( (s >= 1) && (s <= 0x7FFFFFFE))', 'if ( (s > 0) && (s < 2147483647))', expect=0),
    M('benign-prng-urem', 'C19', RAND, '''	lo = 16807 * (of_seed & 0xFFFF);
	hi = 16807 * (of_seed >> 16);
	lo += (hi & 0x7FFF) << 16;
	lo += hi >> 15;
	if (lo > 0x7FFFFFFF)
		lo -= 0x7FFFFFFF;''', '''	lo = (16807 * of_seed) % 0x7FFFFFFF; hi = 0;''', expect=0),
    M('benign-prng-commute', 'C19', RAND, '(double) of_seed * (double) maxv', '(double) maxv * (double) of_seed', expect=0),
    # ---- C14
    M('tab-gf8-mul-entry', 'C14', A28H, '{0,2,4,6,8,10,12,14,16,18,', '{0,2,4,6,8,10,12,14,17,18,', 'R-TABLES'),
    M('tab-gf8-inv-entry', 'C14', A28H, 'of_gf_2_8_inv[] = {0,1,142,244,', 'of_gf_2_8_inv[] = {0,1,142,245,', 'R-TABLES'),
    M('tab-gf4-exp-entry', 'C14', A24H, 'of_gf_2_4_exp[] = {1,2,4,8,3,6,12,11,5,10,7,14,15,13,9,1}', 'of_gf_2_4_exp[] = {1,2,4,8,3,6,12,11,5,10,7,14,13,15,9,1}', 'R-TABLES'),
    M('tab-poly-index', 'C14', RS8, '"101110001",			/*  8', '"100011101",			/*  8', 'R-POLY'),
    M('tab-init-flag-dropped', 'C14', RS8, '''	if (of_rs_initialized == 0)
		of_rs_init();''', '''	if (of_rs_initialized != 0)
		of_rs_init();''', 'R-INIT-BEFORE-USE'),
]
