"""Mutation catalogue for the checker's self-test.  Each entry edits a scratch copy of /repo; `expect` is the
exit code the owning check must give (1 = VIOLATION naming `rule`; 0 = behaviour-preserving edit, must stay silent)."""
RAND = 'src/lib_common/of_rand.c'
A28H = 'src/lib_stable/reed-solomon_gf_2_m/galois_field_codes_utils/algebra_2_8.h'
A24H = 'src/lib_stable/reed-solomon_gf_2_m/galois_field_codes_utils/algebra_2_4.h'
RS8 = 'src/lib_stable/reed-solomon_gf_2_8/of_reed-solomon_gf_2_8.c'


def M(name, props, file, old, new, rule=None, expect=1, count=1):
    return dict(name=name, props=props if isinstance(props, list) else [props], rule=rule, expect=expect,
                edits=[dict(file=file, old=old, new=new, count=count)])


MUTANTS = [
    # ---- C19
    M('prng-16808', 'C19', RAND, 'hi = 16807 * (of_seed >> 16);', 'hi = 16808 * (of_seed >> 16);', 'R-PRNG-STEP'),
    M('prng-shift16', 'C19', RAND, 'lo += hi >> 15;', 'lo += hi >> 16;', 'R-PRNG-STEP'),
    M('prng-mask', 'C19', RAND, '(hi & 0x7FFF) << 16', '(hi & 0x3FFF) << 16', 'R-PRNG-STEP'),
    M('prng-ge', 'C19', RAND, 'if (lo > 0x7FFFFFFF)', 'if (lo >= 0x7FFFFFFE)', 'R-PRNG-STEP'),
    M('prng-modulo-scale', 'C19', RAND, '( (double) of_seed * (double) maxv / (double) 0x7FFFFFFF));', '(of_seed % maxv));', 'R-FPSCALE'),
    M('prng-reassoc', 'C19', RAND, '( (double) of_seed * (double) maxv / (double) 0x7FFFFFFF));',
      '( (double) maxv / (double) 0x7FFFFFFF * (double) of_seed));', 'R-FPSCALE'),
    M('srand-ge0', 'C19', RAND, 'if ( (s >= 1) && (s <= 0x7FFFFFFE))', 'if ( (s >= 0) && (s <= 0x7FFFFFFE))', 'R-SEEDRANGE'),
    M('srand-le', 'C19', RAND, '(s <= 0x7FFFFFFE))', '(s <= 0x7FFFFFFF))', 'R-SEEDRANGE'),
    M('benign-srand-gt0', 'C19', RAND, 'if ( (s >= 1) && (s <= 0x7FFFFFFE))', 'if ( (s > 0) && (s < 2147483647))', expect=0),
    M('benign-prng-urem', 'C19', RAND, '''	lo = 16807 * (of_seed & 0xFFFF);
	hi = 16807 * (of_seed >> 16);
	lo += (hi & 0x7FFF) << 16;
	lo += hi >> 15;
	if (lo > 0x7FFFFFFF)
		lo -= 0x7FFFFFFF;''', '''	lo = (16807 * of_seed) % 0x7FFFFFFF; hi = 0;''', expect=0),
    M('benign-prng-commute', 'C19', RAND, '(double) of_seed * (double) maxv', '(double) maxv * (double) of_seed', expect=0),
    # ---- C14
    M('tab-gf8-mul-entry', 'C14', A28H, '{0,2,4,6,8,10,12,14,16,18,', '{0,2,4,6,8,10,12,14,17,18,', 'R-TABLES'),
    M('tab-gf8-inv-entry', 'C14', A28H, 'of_gf_2_8_inv[] = {0,1,142,244,', 'of_gf_2_8_inv[] = {0,1,142,245,', 'R-TABLES'),
    M('tab-gf4-exp-entry', 'C14', A24H, 'of_gf_2_4_exp[] = {1,2,4,8,3,6,12,11,5,10,7,14,15,13,9,1}', 'of_gf_2_4_exp[] = {1,2,4,8,3,6,12,11,5,10,7,14,13,15,9,1}', 'R-TABLES'),
    M('tab-poly-index', 'C14', RS8, '"101110001",			/*  8', '"100011101",			/*  8', 'R-POLY'),
    M('tab-init-flag-dropped', 'C14', RS8, '''	if (of_rs_initialized == 0)
		of_rs_init();''', '''	if (of_rs_initialized != 0)
		of_rs_init();''', 'R-INIT-BEFORE-USE'),
]


def REV(name, props, sha, rule):
    return dict(name=name, props=props if isinstance(props, list) else [props], rule=rule, expect=1, edits=[dict(revert=sha)])


API = 'src/lib_common/of_openfec_api.c'
RSAPI = 'src/lib_stable/reed-solomon_gf_2_8/of_reed-solomon_gf_2_8_api.c'
RS2API = 'src/lib_stable/reed-solomon_gf_2_m/of_reed-solomon_gf_2_m_api.c'
LDPCAPI = 'src/lib_stable/ldpc_staircase/of_ldpc_staircase_api.c'
ITDEC = 'src/lib_common/linear_binary_codes_utils/it_decoding/of_it_decoding.c'
MLDEC = 'src/lib_common/linear_binary_codes_utils/ml_decoding/of_ml_decoding.c'
LDPCH = 'src/lib_stable/ldpc_staircase/of_ldpc_staircase.h'

MUTANTS += [
    # ---- repaired defects must be reported again when the repair is undone
    REV('revert-log-table-comma', 'C14', '8d2d0b3', 'R-TABLES'),
    REV('revert-ml-finish-truth', 'C10', '4c9fef2', 'R-FINISH-TRUTH'),
    REV('revert-cb-null-fallback', 'C11', 'c9061ae', 'R-CB'),
    REV('revert-ml-writeback-callback', 'C11', 'd741782', 'R-SRCSTORE'),
    # ---- C01 / C10 / C11 / C02 / C04
    M('dispatch-wrong-sibling', 'C01', API, 'status = of_rs_2_m_decode_with_new_symbol ( (of_rs_2_m_cb_t*) ses, new_symbol_buf, new_symbol_esi);',
      'status = of_rs_decode_with_new_symbol ( (of_rs_cb_t*) ses, new_symbol_buf, new_symbol_esi);', 'R-DISPATCH'),
    M('layout-member-inserted', ['C01', 'C04'], LDPCH, '	void**		tmp_tab_symbols;\n', '	UINT32		spare;\n	void**		tmp_tab_symbols;\n', 'R-LAYOUT'),
    M('rs-dup-test-dropped', ['C01', 'C02'], RSAPI, '''	if (ofcb->available_symbols_tab[new_symbol_esi] != NULL)
	{
		/* duplicated symbol, ignore */''', '''	if (0 && ofcb->available_symbols_tab[new_symbol_esi] != NULL)
	{
		/* duplicated symbol, ignore */''', 'R-DUP'),
    M('it-dup-test-dropped', ['C01', 'C04'], ITDEC, '	if (ofcb->encoding_symbols_tab[new_symbol_esi] != NULL)\n	{\n		OF_TRACE_LVL (1, ("%s: %s symbol (esi=%d) already received',
      '	if (0 && ofcb->encoding_symbols_tab[new_symbol_esi] != NULL)\n	{\n		OF_TRACE_LVL (1, ("%s: %s symbol (esi=%d) already received', 'R-DUP'),
    M('rs-setavail-stops-at-k', ['C01', 'C02'], RSAPI, '	for (i = 0; i < ofcb->nb_encoding_symbols; i++)\n	{\n		if ((ofcb->available_symbols_tab[i] = encoding_symbols_tab[i]) == NULL)',
      '	for (i = 0; i < ofcb->nb_source_symbols; i++)\n	{\n		if ((ofcb->available_symbols_tab[i] = encoding_symbols_tab[i]) == NULL)', 'R-SETAVAIL'),
    M('ldpc-setavail-skips-index', 'C01', LDPCAPI, '	for (i = 0; i < ofcb->nb_total_symbols; i++)\n	{\n		if (encoding_symbols_tab[i] == NULL)',
      '	for (i = 1; i < ofcb->nb_total_symbols; i++)\n	{\n		if (encoding_symbols_tab[i] == NULL)', 'R-SETAVAIL'),
    M('rs2m-below-k-returns-ok', ['C02', 'C10'], RS2API, '''("WARNING: nb received symbols < nb source symbols\\n"))
			OF_EXIT_FUNCTION
			return OF_STATUS_FAILURE;''', '''("WARNING: nb received symbols < nb source symbols\\n"))
			OF_EXIT_FUNCTION
			return OF_STATUS_OK;''', 'R-', count=1),
    M('benign-dead-code-edit', ['C02', 'C10'], RS2API, '''		OF_PRINT_ERROR(("ERROR: nb received symbols < nb source symbols\\n"))
		OF_EXIT_FUNCTION
		return OF_STATUS_FAILURE;''', '''		OF_PRINT_ERROR(("ERROR: nb received symbols < nb source symbols\\n"))
		OF_EXIT_FUNCTION
		return OF_STATUS_OK;''', expect=0),
    M('rs-trigger-at-k-minus-1', 'C02', RSAPI, '	if (ofcb->nb_available_symbols >= ofcb->nb_source_symbols)\n	{\n		/* we received a sufficient number',
      '	if (ofcb->nb_available_symbols + 1 >= ofcb->nb_source_symbols)\n	{\n		/* we received a sufficient number', 'R-RS-THRESHOLD'),
    M('rs-finished-set-early', ['C01', 'C10'], RSAPI, '	ofcb->available_symbols_tab[new_symbol_esi] = new_symbol;\n	ofcb->nb_available_symbols++;',
      '	ofcb->available_symbols_tab[new_symbol_esi] = new_symbol;\n	ofcb->nb_available_symbols++;\n	if (ofcb->nb_available_symbols == ofcb->nb_source_symbols) ofcb->decoding_finished = true;', 'R-COMPLETE'),
    M('ldpc-complete-scan-short', ['C01', 'C04', 'C10'], LDPCAPI, '	for (; ofcb->first_non_decoded < ofcb->nb_source_symbols; ofcb->first_non_decoded++)\n	{\n		if (ofcb->encoding_symbols_tab[ofcb->first_non_decoded] == NULL)\n		{\n			OF_TRACE_LVL (1, ("decoding not complete',
      '	for (; ofcb->first_non_decoded + 1 < ofcb->nb_source_symbols; ofcb->first_non_decoded++)\n	{\n		if (ofcb->encoding_symbols_tab[ofcb->first_non_decoded] == NULL)\n		{\n			OF_TRACE_LVL (1, ("decoding not complete', 'R-COMPLETE'),
    M('it-source-copied-not-stored', ['C10', 'C01'], ITDEC, '		ofcb->encoding_symbols_tab[new_symbol_esi] = new_symbol;\n		if (of_is_decoding_complete',
      '		ofcb->encoding_symbols_tab[new_symbol_esi] = of_malloc (ofcb->encoding_symbol_length);\n		memcpy (ofcb->encoding_symbols_tab[new_symbol_esi], new_symbol, ofcb->encoding_symbol_length);\n		if (of_is_decoding_complete', 'R-SRCSTORE'),
    M('rs-gettab-copies-n', 'C10', RSAPI, 'memcpy(source_symbols_tab, ofcb->available_symbols_tab, ofcb->nb_source_symbols * sizeof(void*));',
      'memcpy(source_symbols_tab, ofcb->available_symbols_tab, ofcb->nb_encoding_symbols * sizeof(void*));', 'R-SRCPTR'),
    M('cb-wrong-esi', 'C11', RSAPI, 'ofcb->encoding_symbol_length, tmp_idx);', 'ofcb->encoding_symbol_length, tmp_idx + 1);', 'R-CB'),
    M('cb-size-swapped', 'C11', ITDEC, '										ofcb->context_4_callback,\n										ofcb->encoding_symbol_length,\n										decoded_symbol_esi)) != NULL)',
      '										ofcb->context_4_callback,\n										decoded_symbol_esi,\n										ofcb->encoding_symbol_length)) != NULL)', 'R-CB'),
    M('cb-for-received-symbol', 'C11', RSAPI, '''		if (*ass_buf != NULL)
		{
			/* nothing to do, this source symbol has already been received. */
			continue;
		}''', '''		if (0 && *ass_buf != NULL)
		{
			/* nothing to do, this source symbol has already been received. */
			continue;
		}''', 'R-', count=1),
    M('ml-status-ok-after-solve-fail', 'C10', MLDEC, '''		OF_TRACE_LVL(0,("Solve dense system failed\\n"))
		goto failure;''', '''		OF_TRACE_LVL(0,("Solve dense system failed\\n"))
		return OF_STATUS_OK;''', 'R-'),
    # behaviour-preserving edits must stay silent
    M('benign-rs-dup-early-return', ['C01', 'C02', 'C10'], RSAPI, '''		OF_TRACE_LVL(2, ("of_rs_decode_with_new_symbol: symbol (esi=%d) duplicated\\n", new_symbol_esi));
		goto end;''', '''		OF_TRACE_LVL(2, ("of_rs_decode_with_new_symbol: symbol (esi=%d) duplicated\\n", new_symbol_esi));
		return OF_STATUS_OK;''', expect=0),
    M('benign-api-trace', ['C01', 'C10'], API, '	if ( new_symbol_esi >= (((of_cb_t*) ses)->nb_source_symbols + ((of_cb_t*) ses)->nb_repair_symbols) )\n	{',
      '	OF_TRACE_LVL (2, ("decode esi=%u\\n", new_symbol_esi))\n	if ( new_symbol_esi >= (((of_cb_t*) ses)->nb_source_symbols + ((of_cb_t*) ses)->nb_repair_symbols) )\n	{', expect=0),
]

MUTANTS += [
    # ---- C09
    REV('revert-generic-zero-check', 'C09', '578eafc', 'R-PARAM'),
    REV('revert-rs28-n-check', 'C09', '492b3a4', 'R-PARAM'),
    REV('revert-ldpc-seed-check', 'C09', '971f221', 'R-PARAM'),
    M('accept-n1-4', 'C09', LDPCAPI, '	if (params->N1 < 3)', '	if (params->N1 < 4)', 'R-ACCEPT'),
    M('accept-seed-upper', 'C09', LDPCAPI, 'params->prng_seed > 0x7FFFFFFE)', 'params->prng_seed > 0x7FFFFFF)', 'R-ACCEPT'),
    M('accept-rs-k-200', 'C09', 'src/lib_stable/reed-solomon_gf_2_8/of_reed-solomon_gf_2_8_api.c',
      '	ofcb->nb_source_symbols = params->nb_source_symbols;\n	if ((ofcb->nb_repair_symbols',
      '	if (params->nb_source_symbols > 200) goto error;\n	if ((ofcb->nb_repair_symbols', 'R-ACCEPT'),
    M('accept-n-strict', 'C09', 'src/lib_stable/reed-solomon_gf_2_8/of_reed-solomon_gf_2_8_api.c',
      '	if (ofcb->nb_encoding_symbols > ofcb->max_nb_encoding_symbols) {', '	if (ofcb->nb_encoding_symbols >= ofcb->max_nb_encoding_symbols) {', 'R-ACCEPT'),
    M('accept-pchk-ge', 'C09', 'src/lib_stable/ldpc_staircase/of_ldpc_staircase_pchk.c', '	if (left_degree > nb_rows)\n	{', '	if (left_degree >= nb_rows)\n	{', 'R-ACCEPT'),
    M('accept-len-mult4', 'C09', API, '	    (params->encoding_symbol_length <= 0))', '	    (params->encoding_symbol_length <= 0) || (params->encoding_symbol_length & 3))', 'R-ACCEPT'),
    M('accept-rs2m-m8-only', 'C09', RS2API, '	if ((ofcb->m != 4) && (ofcb->m != 8)) {', '	if (ofcb->m != 8) {', 'R-ACCEPT'),
    M('param-n1-lower', 'C09', LDPCAPI, '	if (params->N1 < 3)', '	if (params->N1 < 2)', 'R-PARAM'),
    M('param-m-7', 'C09', RS2API, '	if ((ofcb->m != 4) && (ofcb->m != 8)) {', '	if ((ofcb->m != 4) && (ofcb->m != 8) && (ofcb->m != 7)) {', 'R-PARAM'),
    M('param-k-vs-maxn', 'C09', LDPCAPI, '	if ((ofcb->nb_source_symbols = params->nb_source_symbols) > ofcb->max_nb_source_symbols)\n	{\n		OF_PRINT_ERROR(("of_ldpc_staircase',
      '	if ((ofcb->nb_source_symbols = params->nb_source_symbols) > 2 * ofcb->max_nb_source_symbols)\n	{\n		OF_PRINT_ERROR(("of_ldpc_staircase', 'R-PARAM'),
    M('param-ldpc-r-check-dropped', 'C09', LDPCAPI, '	if ((ofcb->nb_repair_symbols = params->nb_repair_symbols) > ofcb->max_nb_encoding_symbols)\n	{',
      '	if ((ofcb->nb_repair_symbols = params->nb_repair_symbols) > 0xFFFFFFF0u)\n	{', 'R-PARAM'),
    M('param-n1-vs-r-dropped', 'C09', 'src/lib_stable/ldpc_staircase/of_ldpc_staircase_pchk.c', '	if (left_degree > nb_rows)\n	{', '	if (left_degree > nb_cols)\n	{', 'R-PARAM'),
    M('param-generic-check-only-k', 'C09', API, "((params->nb_source_symbols <= 0) || (params->nb_repair_symbols <= 0)) ||", "((params->nb_source_symbols <= 0)) ||", 'R-PARAM'),
    M('apiguard-esi-le', ['C09', 'C07'], API, 'new_symbol_esi >= (((of_cb_t*) ses)->nb_source_symbols', 'new_symbol_esi > (((of_cb_t*) ses)->nb_source_symbols', 'R-APIGUARD', count=2),
    M('benign-apiguard-redundant-check', 'C09', API, '	if ( new_symbol_esi >= (((of_cb_t*) ses)->nb_source_symbols + ((of_cb_t*) ses)->nb_repair_symbols) )\n	{',
      '	if ( new_symbol_esi > (((of_cb_t*) ses)->nb_source_symbols + ((of_cb_t*) ses)->nb_repair_symbols) )\n	{', expect=0),
    M('apiguard-role-dropped', 'C09', API, '''	if (!(((of_cb_t*) ses)->codec_type & OF_ENCODER))
	{''', '''	if (0)
	{''', 'R-APIGUARD'),
    M('apiguard-null-ses', 'C09', API, '''of_status_t	of_finish_decoding (of_session_t*	ses)
{
	of_status_t	status;
	
	OF_ENTER_FUNCTION
	if (ses == NULL)''', '''of_status_t	of_finish_decoding (of_session_t*	ses)
{
	of_status_t	status;
	
	OF_ENTER_FUNCTION
	if (0)''', 'R-APIGUARD'),
    M('apiguard-build-esi-lower', ['C09', 'C06'], RSAPI, 'if (esi_of_symbol_to_build < ofcb->nb_source_symbols || esi_of_symbol_to_build >= ofcb->nb_encoding_symbols)',
      'if (esi_of_symbol_to_build >= ofcb->nb_encoding_symbols)', 'R-APIGUARD'),
    M('benign-param-reorder', 'C09', LDPCAPI, '	if (params->N1 < 3)', '	if (3 > params->N1)', expect=0),
    M('benign-seed-guard-form', 'C09', LDPCAPI, '	if (params->prng_seed < 1 || params->prng_seed > 0x7FFFFFFE)', '	if (params->prng_seed <= 0 || params->prng_seed >= 0x7FFFFFFF)', expect=0),
]

GFC = 'src/lib_stable/reed-solomon_gf_2_m/galois_field_codes_utils/of_galois_field_code.c'
RS8C = 'src/lib_stable/reed-solomon_gf_2_8/of_reed-solomon_gf_2_8.c'
MUTANTS += [
    # ---- C08
    M('own-ldpc-index-rows-not-freed', 'C08', LDPCAPI, '''	if (ofcb->index_rows != NULL)
	{
		of_free (ofcb->index_rows);
		ofcb->index_rows = NULL;
	}''', '''	if (ofcb->index_rows != NULL)
	{
		ofcb->index_rows = NULL;
	}''', 'R-OWN-FIELD'),
    M('own-ldpc-matrix-struct-not-freed', 'C08', LDPCAPI, '''		of_mod2sparse_free(ofcb->pchk_matrix);
		of_free (ofcb->pchk_matrix);
		ofcb->pchk_matrix  = NULL;''', '''		of_mod2sparse_free(ofcb->pchk_matrix);
		ofcb->pchk_matrix  = NULL;''', 'R-OWN-FIELD'),
    M('own-rs-rs_cb-not-freed', 'C08', RSAPI, '''		of_rs_free (ofcb->rs_cb);
		ofcb->rs_cb = NULL;
	}
#ifdef OF_USE_DECODER
	if (ofcb->available_symbols_tab != NULL)''', '''		ofcb->rs_cb = NULL;
	}
#ifdef OF_USE_DECODER
	if (ofcb->available_symbols_tab != NULL)''', 'R-OWN-FIELD'),
    M('own-rs2m-dec-matrix-release', 'C08', GFC, '''	 if (ofcb->dec_matrix != NULL)
	 {
		 of_free(ofcb->dec_matrix);''', '''	 if (ofcb->dec_matrix != NULL && ofcb->enc_matrix == NULL)
	 {
		 of_free(ofcb->dec_matrix);''', 'R-OWN-FIELD'),
    M('own-ldpc-sweep-from-zero', 'C08', LDPCAPI, '		for (i = ofcb->nb_source_symbols; i < ofcb->nb_total_symbols; i++)', '		for (i = 0; i < ofcb->nb_total_symbols; i++)', 'R-OWN-ELEM'),
    M('own-ldpc-sweep-short', 'C08', LDPCAPI, '			for (i = 0; i < ofcb->nb_repair_symbols; i++)\n			{\n				if (ofcb->tab_const_term_of_equ[i] != NULL)',
      '			for (i = 0; i + 1 < ofcb->nb_repair_symbols; i++)\n			{\n				if (ofcb->tab_const_term_of_equ[i] != NULL)', 'R-OWN-ELEM'),
    M('own-ml-early-return', 'C08', MLDEC, '''		OF_TRACE_LVL(0,("Solve dense system failed\\n"))
		goto failure;''', '''		OF_TRACE_LVL(0,("Solve dense system failed\\n"))
		return OF_STATUS_FAILURE;''', 'R-OWN-LOCAL'),
    M('own-rs-large-buf-leak', 'C08', RSAPI, '	of_free(large_buf);\n	OF_EXIT_FUNCTION\n	return OF_STATUS_OK;', '	OF_EXIT_FUNCTION\n	return OF_STATUS_OK;', 'R-OWN-LOCAL'),
    M('own-ml-permutation-leak', 'C08', MLDEC, '	of_free (permutation_array);\n	permutation_array = NULL;\n	OF_TRACE_LVL (1, ("%s: ofcb->remain_rows=', '	permutation_array = NULL;\n	OF_TRACE_LVL (1, ("%s: ofcb->remain_rows=', 'R-OWN-LOCAL'),
    M('own-rs2m-decmatrix-dangling', 'C08', GFC, '	of_free(ofcb->dec_matrix);\n	ofcb->dec_matrix = NULL;\n	OF_EXIT_FUNCTION\n	return OF_STATUS_OK;', '	of_free(ofcb->dec_matrix);\n	OF_EXIT_FUNCTION\n	return OF_STATUS_OK;', 'R-DANGLING'),
    M('own-it-double-free', 'C08', ITDEC, '						// we don\'t need the const_term buffer any more, so free it.\n						of_free (const_term);',
      '						// we don\'t need the const_term buffer any more, so free it.\n						of_free (const_term);\n						of_free (const_term);', 'R-UAF'),
    M('own-rs-use-after-free', 'C08', RSAPI, '	of_rs_free (ofcb->rs_cb);\n	ofcb->rs_cb = NULL;\n	ofcb->decoding_finished = true;', '	of_rs_free (ofcb->rs_cb);\n	ofcb->decoding_finished = true;', 'R-DANGLING'),
    M('benign-own-free-order', 'C08', RSAPI, '''	if (ofcb->rs_cb != NULL)
	{
		of_rs_free (ofcb->rs_cb);
		ofcb->rs_cb = NULL;
	}
#ifdef OF_USE_DECODER
	if (ofcb->available_symbols_tab != NULL)
	{
		of_free(ofcb->available_symbols_tab);
		ofcb->available_symbols_tab = NULL;
	}
#endif  /* OF_USE_DECODER */''', '''#ifdef OF_USE_DECODER
	if (ofcb->available_symbols_tab != NULL)
	{
		of_free(ofcb->available_symbols_tab);
		ofcb->available_symbols_tab = NULL;
	}
#endif  /* OF_USE_DECODER */
	if (ofcb->rs_cb != NULL)
	{
		of_rs_free (ofcb->rs_cb);
		ofcb->rs_cb = NULL;
	}''', expect=0),
]

SPARSE = 'src/lib_common/linear_binary_codes_utils/binary_matrix/of_matrix_sparse.c'
DENSE = 'src/lib_common/linear_binary_codes_utils/binary_matrix/of_matrix_dense.c'
DENSEH = 'src/lib_common/linear_binary_codes_utils/binary_matrix/of_matrix_dense.h'
HW = 'src/lib_common/linear_binary_codes_utils/binary_matrix/of_hamming_weight.c'
MLTOOL = 'src/lib_common/linear_binary_codes_utils/ml_decoding/of_ml_tool.c'
MUTANTS += [
    # ---- C17 / C18
    REV('revert-sparse-clear-freelist', 'C17', 'cb2c12f', 'R-FREELIST'),
    REV('revert-dense-copyrows', 'C18', 'f1a650c', 'R-IDX-GUARD'),
    REV('revert-hweight-naive', 'C18', 'c8d70a2', 'R-BITLOOP'),
    M('sparse-insert-no-backlink', 'C17', SPARSE, '	ne->left = re->left;\n	ne->right = re;\n	ne->left->right = ne;\n	ne->right->left = ne;\n\n	/* Insert new entry into column. */\n\n#ifndef SPARSE_MATRIX_OPT_FOR_LDPC_STAIRCASE\n	/* If we find an existing entry here,\n	the matrix must be garbled',
      '	ne->left = re->left;\n	ne->right = re;\n	ne->left->right = ne;\n\n	/* Insert new entry into column. */\n\n#ifndef SPARSE_MATRIX_OPT_FOR_LDPC_STAIRCASE\n	/* If we find an existing entry here,\n	the matrix must be garbled', 'R-DLINK'),
    M('sparse-delete-no-col-unlink', 'C17', SPARSE, '	e->up->down = e->down;\n	e->down->up = e->up;\n#else	\n	ce = & (m->cols[of_mod2sparse_col(e)]);\n	for (; ce->down != e; ce = ce->down);	/* find the entry before the one to delete */\n	ce->down = e->down;\n#endif\n\n	e->left->right = e->right;\n	e->right->left = e->left;\n\n	e->left = m->next_free;\n	m->next_free = e;\n	OF_EXIT_FUNCTION\n}\n\n\nvoid of_mod2sparse_delete_opt',
      '	e->up->down = e->down;\n#else	\n	ce = & (m->cols[of_mod2sparse_col(e)]);\n	for (; ce->down != e; ce = ce->down);	/* find the entry before the one to delete */\n	ce->down = e->down;\n#endif\n\n	e->left->right = e->right;\n	e->right->left = e->left;\n\n	e->left = m->next_free;\n	m->next_free = e;\n	OF_EXIT_FUNCTION\n}\n\n\nvoid of_mod2sparse_delete_opt', 'R-DLINK'),
    M('sparse-find-le', 'C17', SPARSE, '	if (row >= of_mod2sparse_rows (m) || col >= of_mod2sparse_cols (m))\n	{\n		fprintf (stderr, "mod2sparse_find:',
      '	if (row > of_mod2sparse_rows (m) || col >= of_mod2sparse_cols (m))\n	{\n		fprintf (stderr, "mod2sparse_find:', 'R-IDX-GUARD'),
    M('sparse-insert-dims-swapped', 'C17', SPARSE, '	if (row >= of_mod2sparse_rows (m) || col >= of_mod2sparse_cols (m))\n	{\n		fprintf (stderr, "mod2sparse_insert:',
      '	if (row >= of_mod2sparse_cols (m) || col >= of_mod2sparse_rows (m))\n	{\n		fprintf (stderr, "mod2sparse_insert:', 'R-IDX-GUARD', count=2),
    M('sparse-free-misses-cols', 'C17', SPARSE, '	of_free (m->rows);\n	of_free (m->cols);\n', '	of_free (m->rows);\n', 'R-OWN-FIELD'),
    M('dense-mask-30', 'C18', DENSEH, '#define of_mod2_wordsize_mask 0x1f', '#define of_mod2_wordsize_mask 0x0f', 'R-WORDGEOM'),
    M('dense-shift-6', 'C18', DENSEH, '#define of_mod2_wordsize_shift 5', '#define of_mod2_wordsize_shift 6', 'R-WORDGEOM'),
    M('dense-hw8-entry', 'C18', HW, 'UINT8 of_hw8table[256] = {0, 1, 1, 2, 1, 2, 2, 3,', 'UINT8 of_hw8table[256] = {0, 1, 1, 2, 1, 2, 3, 3,', 'R-HW8'),
    M('dense-swap-without-constants', 'C18', MLTOOL, '		tmp_buffer = constant_tab[i];\n		constant_tab[i] = constant_tab[j];\n		constant_tab[j] = tmp_buffer;\n', '		tmp_buffer = constant_tab[i];\n', 'R-PAIRSWAP'),
    M('dense-set-guard-le', 'C18', DENSE, '	if (row >= of_mod2dense_rows (m) || col >= of_mod2dense_cols (m))\n	{\n		OF_PRINT_ERROR(("mod2dense_set: row (%d) or column index (%d) out of bounds',
      '	if (row > of_mod2dense_rows (m) || col >= of_mod2dense_cols (m))\n	{\n		OF_PRINT_ERROR(("mod2dense_set: row (%d) or column index (%d) out of bounds', 'R-IDX-GUARD'),
]

PCHKC = 'src/lib_stable/ldpc_staircase/of_ldpc_staircase_pchk.c'
OFAPI = 'src/lib_common/of_openfec_api.c'
MUTANTS += [
    # ---- C05 / C12 / C15
    M('pchk-srand-after-first-draw', ['C05', 'C12'], PCHKC, '	of_rfc5170_srand (seed);\n	pchkMatrix = of_mod2sparse_allocate (nb_rows, nb_cols);', '	pchkMatrix = of_mod2sparse_allocate (nb_rows, nb_cols);', 'R-SRAND-DOM'),
    M('pchk-srand-conditional', ['C05', 'C12'], PCHKC, '	of_rfc5170_srand (seed);\n', '	if (seed != 1) of_rfc5170_srand (seed);\n', 'R-SRAND-DOM'),
    M('pchk-reads-cb', 'C05', PCHKC, '	skipCols = nb_rows;\n	nbDataCols = nb_cols - skipCols;', '	skipCols = nb_rows;\n	nbDataCols = nb_cols - skipCols;\n	if (ofcb->codec_type & OF_DECODER) left_degree = left_degree;\n	else if (ofcb->nb_source_symbol_ready) seed++;', 'R-PURE-PCHK'),
    M('pchk-callsite-n1-from-cb-default', 'C05', LDPCAPI, '						   ofcb->N1,\n						   ofcb->prng_seed,', '						   ofcb->N1,\n						   ofcb->prng_seed + ofcb->first_non_decoded,', 'R-PURE-PCHK'),
    M('pchk-static-cache', 'C12', PCHKC, '	UINT32		skipCols = 0;		// avoid warning', '	static UINT32	last_seed;\n	UINT32		skipCols = 0;		// avoid warning\n	if (seed == last_seed) seed = last_seed; last_seed = seed;', 'R-GLOBALS'),
    M('pchk-staircase-short', ['C05', 'C15'], PCHKC, '	for (i = 1; i < nb_rows; i++)\n	{\n		/* for all other rows */', '	for (i = 1; i < nb_rows - 1; i++)\n	{\n		/* for all other rows */', 'R-STAIRCASE'),
    M('pchk-staircase-superdiag', ['C05', 'C15'], PCHKC, '		of_mod2sparse_insert (pchkMatrix, i, i - 1);', '		of_mod2sparse_insert (pchkMatrix, i - 1, i);', 'R-STAIRCASE'),
    M('pchk-colfill-skips-first-col', ['C05', 'C15'], PCHKC, '	for (j = skipCols; j < nb_cols; j++)', '	for (j = skipCols + 1; j < nb_cols; j++)', 'R-COLFILL'),
    M('pchk-colfill-no-find', ['C05', 'C15'], PCHKC, '				while (of_mod2sparse_find (pchkMatrix, i, j));\n				of_mod2sparse_insert (pchkMatrix, i, j);\n			}\n		}\n	}\n	if (uneven > 0',
      '				while (0);\n				of_mod2sparse_insert (pchkMatrix, i, j);\n			}\n		}\n	}\n	if (uneven > 0', 'R-COLFILL'),
    M('pchk-extra-not-counted', 'C15', PCHKC, '			of_mod2sparse_insert (pchkMatrix, i, j);\n			added ++;\n		}\n	}\n	if (added >= 1)', '			of_mod2sparse_insert (pchkMatrix, i, j);\n		}\n	}\n	if (added >= 1)', 'R-EXTRA-MARK'),
    M('pchk-marker-threshold', 'C15', PCHKC, '	if (added >= 1)\n	{', '	if (added > 1)\n	{', 'R-EXTRA-MARK'),
    M('flag-ignores-marker', 'C15', LDPCAPI, '		if (ofcb->extra_entries_added_in_pchk == true)\n		{', '		if (ofcb->extra_entries_added_in_pchk == true && (ofcb->codec_type & OF_DECODER))\n		{', 'R-FLAG-TRUTH'),
    M('flag-odd', 'C15', LDPCAPI, '			*(bool*)value = ((ofcb->N1 & 0x1) == 0) ? true : false;', '			*(bool*)value = ((ofcb->N1 & 0x1) != 0) ? true : false;', 'R-FLAG-TRUTH'),
    M('nullfeed-wrong-esi', 'C15', LDPCAPI, 'if (of_ldpc_staircase_decode_with_new_symbol (ofcb, null_symbol, ofcb->nb_total_symbols - 1)', 'if (of_ldpc_staircase_decode_with_new_symbol (ofcb, null_symbol, ofcb->nb_total_symbols - 2)', 'R-NULLFEED'),
    M('nullfeed-unconditional', 'C15', LDPCAPI, '		if (is_null)\n		{', '		if (is_null || ofcb->N1 > 6)\n		{', 'R-NULLFEED'),
    M('verbosity-controls-code', ['C05', 'C12'], PCHKC, '	if (uneven > 0 && of_verbosity >= 1)\n	{', '	if (uneven > 0 && of_verbosity >= 1)\n	{\n		of_rfc5170_rand (2);', 'R-VERBOSITY'),
    M('mlrand-reseed', 'C12', MLDEC, '	permutation_array = (UINT32 *) of_malloc (ofcb->nb_repair_symbols * sizeof(UINT32));', '	srand (ofcb->nb_repair_symbols);\n	permutation_array = (UINT32 *) of_malloc (ofcb->nb_repair_symbols * sizeof(UINT32));', 'R-GLOBALS'),
    M('global-seed-written-elsewhere', 'C12', OFAPI, '	of_verbosity = verbosity;', '	of_verbosity = verbosity;\n	{ extern UINT64 of_seed; of_seed = 1; }', 'R-'),
    M('benign-pchk-loop-reindex', ['C05', 'C15'], PCHKC, '	of_mod2sparse_insert (pchkMatrix, 0, 0);	/* 1st row */\n	for (i = 1; i < nb_rows; i++)\n	{\n		/* for all other rows */\n		/* identity */\n		of_mod2sparse_insert (pchkMatrix, i, i);\n		/* staircase */\n		of_mod2sparse_insert (pchkMatrix, i, i - 1);\n	}',
      '	of_mod2sparse_insert (pchkMatrix, 0, 0);	/* 1st row */\n	for (i = 0; i < nb_rows - 1; i++)\n	{\n		/* for all other rows */\n		/* identity */\n		of_mod2sparse_insert (pchkMatrix, i + 1, i + 1);\n		/* staircase */\n		of_mod2sparse_insert (pchkMatrix, i + 1, i);\n	}', expect=0),
]

MUTANTS += [
    REV('revert-nullsym-leak-fix', 'C08', '7a98622', 'R-OWN-LOCAL'),
    REV('revert-rs-setavail-flag', 'C10', 'ca0e02f', 'R-'),
]

SYM = 'src/lib_common/linear_binary_codes_utils/of_symbol.c'
A28C = 'src/lib_stable/reed-solomon_gf_2_m/galois_field_codes_utils/algebra_2_8.c'
A24C = 'src/lib_stable/reed-solomon_gf_2_m/galois_field_codes_utils/algebra_2_4.c'
MUTANTS += [
    # ---- C13 (kernels)
    M('kern-tail-mod8', 'C13', SYM, '	symbolSize32rem = symbol_size % 4;	// Remaining bytes when the symbol', '	symbolSize32rem = symbol_size % 8;	// Remaining bytes when the symbol', 'R-KEA', count=3),
    M('kern-32step-le', 'C13', SYM, '	if ( (symbolSize64 << 1) < symbolSize32)\n	{\n		* (UINT32*) t32 ^= * (UINT32*) f32;', '	if ( (symbolSize64 << 1) <= symbolSize32)\n	{\n		* (UINT32*) t32 ^= * (UINT32*) f32;', 'R-KEA', count=3),
    M('kern-gf8-lim', 'C13', A28C, '	lim += UNROLL - 1 ;', '	lim += UNROLL - 2 ;', 'R-KEA'),
    M('kern-gf8-lane', 'C13', A28C, '((UINT64)__gf_mulc_[src[3]]<<24) | ((UINT64)__gf_mulc_[src[4]]<<32)', '((UINT64)__gf_mulc_[src[3]]<<24) | ((UINT64)__gf_mulc_[src[3]]<<32)', 'R-KEA', count=1),
    M('kern-gf4-compact-nibble', 'C13', A24C, '#define GF_ADDMULC_COMPACT(dst,x)	{dst = (dst>>4 ^ __gf_mulc_[x>>4])<<4 |(dst & 0x0F ^ __gf_mulc_[x & 0x0F]); }', '#define GF_ADDMULC_COMPACT(dst,x)	{dst = (dst>>4 ^ __gf_mulc_[x>>4])<<4 |(dst & 0x0F ^ __gf_mulc_[x>>4]); }', 'R-KEA'),
    M('kern-multi-from-size', 'C13', SYM, '		from_size-=8;\n		from+=8;', '		from_size-=8;\n		from+=7;', 'R-KEA', count=1),
    M('kern-rs8-addmul-unroll', 'C13', RS8C, '	gf *lim = &dst[sz - UNROLL + 1] ;', '	gf *lim = &dst[sz - UNROLL + 2] ;', 'R-KEA', count=2),
    M('benign-kern-loop-form', 'C13', SYM, '	for (i = symbolSize64; i > 0; i--)\n	{\n		*t ^= *f;\n		t++;\n		f++;\n	}', '	for (i = 0; i < symbolSize64; i++)\n	{\n		*t ^= *f;\n		t++;\n		f++;\n	}', expect=0, count=3),
]

P2D = 'src/lib_stable/2d_parity_matrix/of_2d_parity_api.c'
PCHKGEN = 'src/lib_common/linear_binary_codes_utils/of_create_pchk.c'
P2DH = 'src/lib_stable/2d_parity_matrix/of_2d_parity.h'
GFCODE = 'src/lib_stable/reed-solomon_gf_2_m/galois_field_codes_utils/of_galois_field_code.c'
MUTANTS += [
    # ---- C06 / C07 / C03 / C16
    REV('revert-nullslot-fix', ['C06', 'C07', 'C16'], '3bfdd69', 'R-NULLSLOT'),
    REV('revert-2d-layout', 'C16', 'd952100', 'R-LAYOUT'),
    REV('revert-2d-setavail', 'C16', '6314a4b', 'R-SETAVAIL'),
    REV('revert-2d-stride', 'C16', '92781fe', 'R-2D-RADIX'),
    M('rs-decode-in-place', ['C07', 'C01'], RSAPI, '			memcpy(tmp_buf[tmp_idx], *ass_buf, ofcb->encoding_symbol_length);\n			tmp_esi[tmp_idx] = ass_esi;', '			tmp_buf[tmp_idx] = *ass_buf;\n			tmp_esi[tmp_idx] = ass_esi;', 'R-RO-FLOW'),
    M('it-writes-received', ['C07', 'C06'], ITDEC, '				of_add_to_symbol (const_term, new_symbol, ofcb->encoding_symbol_length', '				of_add_to_symbol (new_symbol, const_term, ofcb->encoding_symbol_length', 'R-RO-FLOW'),
    M('ldpc-enc-writes-source', ['C06', 'C07'], LDPCAPI, '			of_add_to_symbol (parity_symbol, to_add_buf, ofcb->encoding_symbol_length);', '			of_add_to_symbol (to_add_buf, parity_symbol, ofcb->encoding_symbol_length);', 'R-'),
    M('ldpc-enc-no-zero', 'C06', LDPCAPI, '	parity_symbol = encoding_symbols_tab[esi_of_symbol_to_build];\n	memset (parity_symbol, 0, ofcb->encoding_symbol_length);', '	parity_symbol = encoding_symbols_tab[esi_of_symbol_to_build];', 'R-ENC-LOOP'),
    M('ldpc-enc-adds-self', 'C06', LDPCAPI, '		if (e->col != col_to_build)\n		{\n			// don\'t add paritySymbol to itself', '		if (1)\n		{\n			// don\'t add paritySymbol to itself', 'R-ENC-LOOP'),
    M('rs-enc-loop-k-1', 'C06', RS8C, '		for (i = 0; i < k ; i++)\n			addmul (fec, src[i], p[i], sz) ;', '		for (i = 1; i < k ; i++)\n			addmul (fec, src[i], p[i], sz) ;', 'R-ENC-LOOP'),
    M('rs-nullslot-dropped', ['C06', 'C07'], RSAPI, '	if (encoding_symbols_tab[esi_of_symbol_to_build] == NULL)\n	{\n		if ((encoding_symbols_tab[esi_of_symbol_to_build] = of_calloc (1, ofcb->encoding_symbol_length)) == NULL)',
      '	if (0)\n	{\n		if ((encoding_symbols_tab[esi_of_symbol_to_build] = of_calloc (1, ofcb->encoding_symbol_length)) == NULL)', 'R-NULLSLOT'),
    M('ml-skips-repair-injection', 'C03', MLDEC, '	for (i = 0 ; i < ofcb->nb_repair_symbols ; i++)\n	{\n		if (ofcb->encoding_symbols_tab[ofcb->nb_source_symbols+permutation_array[i]] != NULL)',
      '	for (i = 0 ; i + 1 < ofcb->nb_repair_symbols ; i++)\n	{\n		if (ofcb->encoding_symbols_tab[ofcb->nb_source_symbols+permutation_array[i]] != NULL)', 'R-ML-PIPELINE'),
    M('ml-writeback-short', 'C03', MLDEC, '	for (i = 0; i < ofcb->nb_source_symbols; i++)\n	{\n		if (ofcb->encoding_symbols_tab[i] == NULL)\n		{\n			void	*decoded_symbol_dst',
      '	for (i = 0; i + 1 < ofcb->nb_source_symbols; i++)\n	{\n		if (ofcb->encoding_symbols_tab[i] == NULL)\n		{\n			void	*decoded_symbol_dst', 'R-ML-PIPELINE'),
    M('2d-member-removed', 'C16', P2DH, '	void**		tmp_tab_symbols;\n	UINT16		nb_tmp_symbols;\n', '	void**		tmp_tab_symbols;\n', 'R-LAYOUT'),
    M('2d-radix-swapped', 'C16', PCHKGEN, '			of_mod2sparse_insert(m, i, j + (i * l) + l + d);', '			of_mod2sparse_insert(m, i, j + (i * d) + l + d);', 'R-2D-RADIX'),
    M('2d-release-leak', 'C16', P2D, '		if (ofcb->tmp_tab_symbols != NULL)\n		{\n			of_free(ofcb->tmp_tab_symbols);\n			ofcb->tmp_tab_symbols = NULL;\n		}', '', 'R-OWN-FIELD'),
]

MUTANTS += [
    # ---- R-SIBLINGS
    M('sib-invert-mat-24-pivot', ['C02', 'C01'], A24C, '                if (ipiv[col] != 1 && src[col*k + col] != 0)', '                if (ipiv[col] != 1 && src[col*k + col] == 1)', 'R-SIBLINGS', count=1),
    M('sib-vdm-28-init', 'C02', A28C, '	c[k-1] = p[0] ;	/* really -p(0), but x = -x in GF(2^m) */', '	c[k-1] = p[1] ;	/* really -p(0), but x = -x in GF(2^m) */', 'R-SIBLINGS', count=1),
    M('sib-rs2m-setavail-order', ['C01', 'C02', 'C10'], RS2API, '		if (i < ofcb->nb_source_symbols)\n		{\n			ofcb->nb_available_source_symbols++;\n		}\n		ofcb->nb_available_symbols++;', '		if (i <= ofcb->nb_source_symbols)\n		{\n			ofcb->nb_available_source_symbols++;\n		}\n		ofcb->nb_available_symbols++;', 'R-', count=1),
    M('benign-sib-trace', ['C02', 'C01'], A28C, '	c[k-1] = p[0] ;	/* really -p(0), but x = -x in GF(2^m) */', '	OF_TRACE_LVL (2, ("vdm k=%d\\n", k))\n	c[k-1] = p[0] ;	/* really -p(0), but x = -x in GF(2^m) */', expect=0, count=1),
]

MUTANTS += [
    # ---- R-ACCUM-INIT, R-SWAR, R-HW32-TABLE, R-HW-ARRAY, R-ROWDEG2
    M('accum-init-dropped', 'C14', RS8, '	of_rs_gf_exp[GF_BITS] = 0; /* will be updated at the end of the 1st loop */\n', '', 'R-ACCUM-INIT'),
    M('swar-64-m8', 'C18', HW, '	x = (x + (x >> 4)) & of_m4;', '	x = (x + (x >> 4)) & of_m8;', 'R-SWAR'),
    M('swar-64-shift', 'C18', HW, '	return (x * of_h01) >> 56;', '	return (x * of_h01) >> 48;', 'R-SWAR'),
    M('swar-64-no-mask', 'C18', HW, '	x = (x & of_m2) + ( (x >> 2) & of_m2);', '	x = x + (x >> 2);', 'R-SWAR'),
    M('swar-32-1f', 'C18', HW, '	return (res + (res >> 16)) & 0x000000FF;', '	return (res + (res >> 16)) & 0x0000001F;', 'R-SWAR'),
    M('swar-32-shift', 'C18', HW, '	res = res + (res >> 8);', '	res = res + (res >> 4);', 'R-SWAR'),
    M('benign-swar-32-3f', 'C18', HW, '	return (res + (res >> 16)) & 0x000000FF;', '	return (res + (res >> 16)) & 0x0000003F;', expect=0),
    M('benign-swar-64-and-first', 'C18', HW, '	x -= (x >> 1) & of_m1; ', '	x = (x & of_m1) + ((x >> 1) & of_m1); ', expect=0),
    M('hw32-table-byte-twice', 'C18', HW, '+ of_hw8table[w8[2]] + of_hw8table[w8[3]];', '+ of_hw8table[w8[2]] + of_hw8table[w8[2]];', 'R-HW32-TABLE'),
    M('hw-array-rem', 'C18', HW, '	if (array_size_32_rem > 0)\n', '	if (array_size_32_rem > 1)\n', 'R-HW-ARRAY'),
    M('hw-array-odd-word-dropped', 'C18', HW, '	if (array_size64rem > 0)\n	{\n		v32 = (UINT32*) v64;', '	if (array_size64rem > 1)\n	{\n		v32 = (UINT32*) v64;', 'R-HW-ARRAY'),
    M('hw-array-overread', 'C18', HW, '	array_size64	= array_size_32 >> 1;', '	array_size64	= (array_size_32 + 1) >> 1;', 'R-HW-ARRAY'),
    M('rowdeg2-else-if', ['C05', 'C06'], PCHKC, '		e = of_mod2sparse_first_in_row (pchkMatrix, i);\n		if (of_mod2sparse_at_end (of_mod2sparse_next_in_row (e)) && nbDataCols > 1)',
      '		else if (of_mod2sparse_at_end (of_mod2sparse_next_in_row (e)) && nbDataCols > 1)', 'R-ROWDEG2'),
    M('rowdeg2-same-col-allowed', ['C05', 'C06'], PCHKC, '			while (j == of_mod2sparse_col (e));\n			of_mod2sparse_insert (pchkMatrix, i, j);\n			added ++;',
      '			while (0);\n			of_mod2sparse_insert (pchkMatrix, i, j);\n			added ++;', 'R-ROWDEG2'),
    M('benign-rowdeg2-refetch-kept', ['C05', 'C06'], PCHKC, '		if (of_mod2sparse_at_end (of_mod2sparse_next_in_row (e)) && nbDataCols > 1)',
      '		if (nbDataCols > 1 && of_mod2sparse_at_end (of_mod2sparse_next_in_row (e)))', expect=0),
    # a slip in a Reed-Solomon GF kernel breaks C13/C07/C01/C06 but not the dense solver (C18 analyses the XOR kernels only)
    M('gf-kernel-overrun', ['C13', 'C07'], A24C, '        for (; dst < lim ;dst += UNROLL, src += UNROLL)', '        for (; dst <= lim ;dst += UNROLL, src += UNROLL)', 'R-KEA', count=2),
    M('gf-kernel-overrun-not-c18', 'C18', A24C, '        for (; dst < lim ;dst += UNROLL, src += UNROLL)', '        for (; dst <= lim ;dst += UNROLL, src += UNROLL)', expect=0, count=2),
]

MUTANTS += [
    # ---- R-OWN-OVERWRITE, R-ML-GIVEUP, R-INIT-ORDER, R-2D-DIVISIBLE
    REV('revert-rs-dual-role-leak', 'C08', '1abf04d', 'R-OWN-OVERWRITE'),
    M('overwrite-rs2m-enc-unguarded', 'C08', RS2API, '	if (ofcb->enc_matrix == NULL)\n	{\n		if (of_rs_2m_build_encoding_matrix((of_galois_field_code_cb_t*)ofcb) != OF_STATUS_OK)\n		{\n			OF_PRINT_ERROR(("ERROR: creating encoding matrix failed\\n"))\n				goto error;',
      '	{\n		if (of_rs_2m_build_encoding_matrix((of_galois_field_code_cb_t*)ofcb) != OF_STATUS_OK)\n		{\n			OF_PRINT_ERROR(("ERROR: creating encoding matrix failed\\n"))\n				goto error;', 'R-OWN-OVERWRITE'),
    M('overwrite-index-rows-unguarded', 'C08', MLDEC, '	if (ofcb->index_rows == NULL)\n	{\n		if ((ofcb->index_rows = (UINT32 *) of_calloc (ofcb->nb_repair_symbols, sizeof (UINT32))) == NULL)',
      '	{\n		if ((ofcb->index_rows = (UINT32 *) of_calloc (ofcb->nb_repair_symbols, sizeof (UINT32))) == NULL)', 'R-OWN-OVERWRITE', count=1),
    M('ml-giveup-le', 'C03', MLDEC, '	else if (ofcb->remain_rows < ofcb->remain_cols)', '	else if (ofcb->remain_rows <= ofcb->remain_cols)', 'R-ML-GIVEUP'),
    M('ml-giveup-overdetermined', 'C03', MLDEC, '	else if (ofcb->remain_rows < ofcb->remain_cols)', '	else if (ofcb->remain_rows != ofcb->remain_cols)', 'R-ML-GIVEUP'),
    M('benign-ml-giveup-swapped', 'C03', MLDEC, '	else if (ofcb->remain_rows < ofcb->remain_cols)', '	else if (ofcb->remain_cols > ofcb->remain_rows)', expect=0),
    M('benign-ml-giveup-removed', 'C03', MLDEC, '	else if (ofcb->remain_rows < ofcb->remain_cols)', '	else if (0)', expect=0),
    dict(name='init-order-counters-late', props=['C03', 'C04', 'C01'], rule='R-INIT-ORDER', expect=1, edits=[
        dict(file=LDPCAPI, old='	ofcb->nb_source_symbol_ready = 0; // Number of source symbols ready\n	ofcb->nb_repair_symbol_ready = 0; // Number of parity symbols ready\n', new='', count=1),
        dict(file=LDPCAPI, old='			of_free (null_symbol);\n		}\n	}\n#endif //OF_USE_DECODER\n	OF_EXIT_FUNCTION\n	return OF_STATUS_OK;\n',
             new='			of_free (null_symbol);\n		}\n	}\n#endif //OF_USE_DECODER\n	ofcb->nb_source_symbol_ready = 0;\n	ofcb->nb_repair_symbol_ready = 0;\n	OF_EXIT_FUNCTION\n	return OF_STATUS_OK;\n', count=1)]),
    M('2d-divisible-int', 'C16', PCHKGEN, '	float		d,l;		// code dimensions for 2D pchk matrix', '	UINT32		d,l;		// code dimensions for 2D pchk matrix', 'R-2D-DIVISIBLE'),
    M('benign-2d-divisible-double', 'C16', PCHKGEN, '	float		d,l;		// code dimensions for 2D pchk matrix', '	double		d,l;		// code dimensions for 2D pchk matrix', expect=0),
]

MUTANTS += [
    # ---- R-IDX-GUARD, bound taken from another object
    M('idx-foreign-bound', 'C17', SPARSE, '	of_mod2sparse_clear (r);\n\n	for (i = 0; i < of_mod2sparse_rows (m); i++)\n	{\n		e = of_mod2sparse_first_in_row (m, i);\n\n		while (!of_mod2sparse_at_end (e))\n		{\n			f = of_mod2sparse_insert (r, e->row, e->col);',
      '	of_mod2sparse_clear (r);\n\n	for (i = 0; i < of_mod2sparse_rows (r); i++)\n	{\n		e = of_mod2sparse_first_in_row (m, i);\n\n		while (!of_mod2sparse_at_end (e))\n		{\n			f = of_mod2sparse_insert (r, e->row, e->col);', 'R-IDX-GUARD'),
    dict(name='benign-idx-foreign-equal-dims', props=['C17'], rule=None, expect=0, edits=[
        dict(file=SPARSE, old='	if (of_mod2sparse_rows (m) > of_mod2sparse_rows (r)\n			|| of_mod2sparse_cols (m) > of_mod2sparse_cols (r))\n	{\n		OF_PRINT_ERROR(("Destination matrix is too small"));',
             new='	if (of_mod2sparse_rows (m) != of_mod2sparse_rows (r)\n			|| of_mod2sparse_cols (m) > of_mod2sparse_cols (r))\n	{\n		OF_PRINT_ERROR(("Destination matrix is too small"));', count=1),
        dict(file=SPARSE, old='	of_mod2sparse_clear (r);\n\n	for (i = 0; i < of_mod2sparse_rows (m); i++)\n	{\n		e = of_mod2sparse_first_in_row (m, i);\n\n		while (!of_mod2sparse_at_end (e))\n		{\n			f = of_mod2sparse_insert (r, e->row, e->col);',
             new='	of_mod2sparse_clear (r);\n\n	for (i = 0; i < of_mod2sparse_rows (r); i++)\n	{\n		e = of_mod2sparse_first_in_row (m, i);\n\n		while (!of_mod2sparse_at_end (e))\n		{\n			f = of_mod2sparse_insert (r, e->row, e->col);', count=1)]),
]

MUTANTS += [
    # ---- R-SYMTAB-WRITERS, R-IT-REGISTER, R-COPY-SCALE (round-4 seeds C04) and the precision fixes they prompted
    M('symtab-direct-null-symbol', ['C04', 'C01', 'C03'], LDPCAPI, '			if (of_ldpc_staircase_decode_with_new_symbol (ofcb, null_symbol, ofcb->nb_total_symbols - 1)\n													!= OF_STATUS_OK)\n			{\n				OF_PRINT_ERROR(("%s: ERROR: of_ldpc_staircase_decode_with_new_symbol() failed\\n", __FUNCTION__))\n				goto error;\n			}\n			/* the decoder keeps its own copy of a repair symbol, so free ours. */\n			of_free (null_symbol);\n',
      '			ofcb->encoding_symbols_tab[ofcb->nb_total_symbols - 1] = null_symbol;\n			ofcb->nb_repair_symbol_ready++;\n', 'R-SYMTAB-WRITERS'),
    dict(name='it-register-late', props=['C04', 'C01'], rule='R-IT-REGISTER', expect=1, edits=[dict(patch='seeded/C04-r4-2/patch.diff')]),
    dict(name='it-register-late-not-c10', props=['C10', 'C11'], rule=None, expect=0, edits=[dict(patch='seeded/C04-r4-2/patch.diff')]),
    dict(name='copy-scale-count-for-bytes', props=['C04', 'C01'], rule='R-COPY-SCALE', expect=1, edits=[dict(patch='seeded/C04-r4-3/patch.diff')]),
    dict(name='copy-scale-not-setavail', props=['C03', 'C10', 'C11', 'C16'], rule=None, expect=0, edits=[dict(patch='seeded/C04-r4-3/patch.diff')]),
]

MUTANTS += [
    # ---- R-FPRANGE
    M('fprange-divisor', 'C19', RAND, '(double) 0x7FFFFFFF));', '(double) 0x7FFFFFFE));', 'R-FP'),
]

MUTANTS += [
    # ---- R-SOLVER-RANGES
    M('solver-pivot-skips-row-i', ['C18', 'C03'], MLTOOL, '	for (j = i; j < p; j++)\n	{\n		if (of_mod2_getbit(m->row[j][w0], b0))\n			break;', '	for (j = i + 1; j < p; j++)\n	{\n		if (of_mod2_getbit(m->row[j][w0], b0))\n			break;', 'R-SOLVER-RANGES'),
    M('solver-elim-stops-early', ['C18', 'C03'], MLTOOL, '	for (j = i + 1; j < p; j++)\n	{\n		if (of_mod2_getbit(m->row[j][w0], b0))\n		{', '	for (j = i + 1; j < p - 1; j++)\n	{\n		if (of_mod2_getbit(m->row[j][w0], b0))\n		{', 'R-SOLVER-RANGES'),
    M('solver-xor-from-next-word', ['C18'], MLTOOL, '			for (k = w0; k < w; k++)', '			for (k = w0 + 1; k < w; k++)', 'R-SOLVER-RANGES'),
    M('solver-backsub-skips-next', ['C18'], MLTOOL, '			for (j = i + 1; j < n; j++)\n			{\n				w0 = j >> of_mod2_wordsize_shift;', '			for (j = i + 2; j < n; j++)\n			{\n				w0 = j >> of_mod2_wordsize_shift;', 'R-SOLVER-RANGES'),
    M('solver-fail-one-early', ['C18'], MLTOOL, '	if (j == p)\n	{\n		/* it', '	if (j >= p - 1)\n	{\n		/* it', 'R-SOLVER-RANGES'),
    M('benign-solver-xor-from-zero', ['C18'], MLTOOL, '			for (k = w0; k < w; k++)', '			for (k = 0; k < w; k++)', expect=0),
    M('benign-solver-fail-ge', ['C18'], MLTOOL, '	if (j == p)\n	{\n		/* it', '	if (j >= p)\n	{\n		/* it', expect=0),
]

MUTANTS += [
    # ---- round-6 seeds as mutants (rules added / repaired for them), and the scoping they must respect
    dict(name='coverage-exp-hole', props=['C14'], rule='R-TABLE-COVERAGE', expect=1, edits=[dict(patch='seeded/C14-r6-1/patch.diff')]),
    dict(name='coverage-times-zero', props=['C14'], rule='R-TABLE-COVERAGE', expect=1, edits=[dict(patch='seeded/C14-r6-3/patch.diff')]),
    dict(name='coverage-times-zero-not-c12', props=['C12'], rule=None, expect=0, edits=[dict(patch='seeded/C14-r6-3/patch.diff')]),
    dict(name='prng-carry-after-reduction', props=['C19', 'C05'], rule='R-PRNG-STEP', expect=1, edits=[dict(patch='seeded/C19-r6-1/patch.diff')]),
    dict(name='fill-scale-dense-copy', props=['C18'], rule='R-COPY-SCALE', expect=1, edits=[dict(patch='seeded/C18-r6-1/patch.diff')]),
    dict(name='fill-scale-dense-copy-not-c01', props=['C01'], rule=None, expect=0, edits=[dict(patch='seeded/C18-r6-1/patch.diff')]),
    dict(name='init-order-marker-wiped', props=['C15'], rule='R-INIT-ORDER', expect=1, edits=[dict(patch='seeded/C15-r6-3/patch.diff')]),
    dict(name='callback-null-fallback-lost', props=['C01', 'C02', 'C10', 'C11'], rule='R-CB', expect=1, edits=[dict(patch='seeded/C01-r5-1/patch.diff')]),
    dict(name='rs2m-encode-not-zeroed', props=['C02', 'C06'], rule='R-ENC-LOOP', expect=1, edits=[dict(patch='seeded/C02-r5-3/patch.diff')]),
    dict(name='ldpc-setavail-not-c16', props=['C16'], rule=None, expect=0, edits=[dict(patch='seeded/C10-r5-3/patch.diff')]),
]
